#!/bin/bash
# no_alarm_audit.sh <first-seed> <last-seed>: runs every quick check on the unchanged tree under other VERIF_SEED
# values and reports any run that does not exit 0. Evidence files are restored afterwards (they belong to seed 1).
cd "$(dirname "$0")"
mkdir -p target/audit-evidence && cp evidence/*.json target/audit-evidence/ 2>/dev/null
bad=0
for seed in $(seq "$1" "$2"); do
  for p in C07 C12 C16 C20; do
    out=$(VERIF_SEED=$seed ./check $p quick 2>&1); rc=$?
    echo "seed=$seed $p exit=$rc $(echo "$out" | grep -E " quick:" | sed 's/.*runs=/runs=/')"
    if [ $rc -ne 0 ]; then bad=$((bad+1)); echo "$out" | grep -E "VIOLATION|HARNESS|UNSTABLE|AUDIT|^  " | cut -c1-300; fi
  done
done
cp target/audit-evidence/*.json evidence/ 2>/dev/null
echo "no-alarm audit: $bad alarm(s)"
exit $bad
