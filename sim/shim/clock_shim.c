/* Clock seam for the process-level layer: shifts every clock the sylt process can read by
 * SYLT_SIM_CLOCK_OFFSET seconds (LD_PRELOAD). sylt reads no clock today; this makes any
 * future dependence on the time of day a controlled, repeatable input instead of luck. */
#define _GNU_SOURCE
#include <dlfcn.h>
#include <stdlib.h>
#include <time.h>
#include <sys/time.h>

static long long offset_s(void) {
    static int init = 0;
    static long long off = 0;
    if (!init) {
        const char *e = getenv("SYLT_SIM_CLOCK_OFFSET");
        off = e ? atoll(e) : 0;
        init = 1;
    }
    return off;
}

int clock_gettime(clockid_t id, struct timespec *ts) {
    static int (*real)(clockid_t, struct timespec *) = 0;
    if (!real) real = (int (*)(clockid_t, struct timespec *))dlsym(RTLD_NEXT, "clock_gettime");
    int r = real(id, ts);
    if (r == 0 && ts && (id == CLOCK_REALTIME || id == CLOCK_REALTIME_COARSE)) ts->tv_sec += offset_s();
    return r;
}

int gettimeofday(struct timeval *tv, void *tz) {
    static int (*real)(struct timeval *, void *) = 0;
    if (!real) real = (int (*)(struct timeval *, void *))dlsym(RTLD_NEXT, "gettimeofday");
    int r = real(tv, tz);
    if (r == 0 && tv) tv->tv_sec += offset_s();
    return r;
}

time_t time(time_t *t) {
    static time_t (*real)(time_t *) = 0;
    if (!real) real = (time_t (*)(time_t *))dlsym(RTLD_NEXT, "time");
    time_t r = real(0);
    if (r != (time_t)-1) r += offset_s();
    if (t) *t = r;
    return r;
}
