//! Shrinks a failing scenario while the same violation (clause, class) persists.

use crate::scenario::{Concrete, RenderPlan, Scenario, SinkPlan};

pub struct Budget {
    pub left: usize,
    pub used: usize,
}

impl Budget {
    fn take(&mut self) -> bool {
        if self.left == 0 {
            return false;
        }
        self.left -= 1;
        self.used += 1;
        true
    }
}

fn ddmin<T: Clone>(items: Vec<T>, b: &mut Budget, test: &mut dyn FnMut(&[T], &mut Budget) -> bool) -> Vec<T> {
    let mut cur = items;
    let mut n = 2usize;
    while cur.len() >= 2 && b.left > 0 {
        let chunk = (cur.len() + n - 1) / n;
        let mut reduced = false;
        let mut start = 0;
        while start < cur.len() {
            let end = (start + chunk).min(cur.len());
            let mut cand: Vec<T> = Vec::with_capacity(cur.len() - (end - start));
            cand.extend_from_slice(&cur[..start]);
            cand.extend_from_slice(&cur[end..]);
            if test(&cand, b) {
                cur = cand;
                n = (n - 1).max(2);
                reduced = true;
                break;
            }
            start = end;
        }
        if !reduced {
            if n >= cur.len() {
                break;
            }
            n = (n * 2).min(cur.len());
        }
    }
    // final pass: single elements
    let mut i = 0;
    while i < cur.len() && cur.len() > 1 && b.left > 0 {
        let mut cand = cur.clone();
        cand.remove(i);
        if test(&cand, b) {
            cur = cand;
        } else {
            i += 1;
        }
    }
    cur
}

pub fn minimise(
    start: &Concrete,
    scenario: Option<&Scenario>,
    test: &dyn Fn(&Concrete) -> bool,
    budget: usize,
) -> (Concrete, usize) {
    let mut b = Budget { left: budget, used: 0 };
    let mut cur = start.clone();

    // 1. drop faults one at a time
    if let Some(sc) = scenario {
        let mut sc = sc.clone();
        let mut i = 0;
        while i < sc.faults.len() && b.take() {
            let mut cand = sc.clone();
            cand.faults.remove(i);
            let c = cand.realise();
            let c = Concrete { sink: cur.sink.clone(), render: cur.render.clone(), hash_seed: cur.hash_seed, ..c };
            if test(&c) {
                sc = cand;
                cur = c;
            } else {
                i += 1;
            }
        }
    }

    let mut try_set = |cur: &mut Concrete, cand: Concrete, b: &mut Budget| -> bool {
        if cand == *cur || !b.take() {
            return false;
        }
        if test(&cand) {
            *cur = cand;
            true
        } else {
            false
        }
    };

    // 2. simplify plans and flags
    let mut c = cur.clone();
    c.render = RenderPlan::default();
    if !try_set(&mut cur, c, &mut b) {
        let mut c = cur.clone();
        c.render.overrides.clear();
        try_set(&mut cur, c, &mut b);
    }
    let mut c = cur.clone();
    c.sink = SinkPlan::Plain;
    try_set(&mut cur, c, &mut b);
    let mut c = cur.clone();
    c.no_std = false;
    try_set(&mut cur, c, &mut b);
    let mut c = cur.clone();
    c.require = None;
    try_set(&mut cur, c, &mut b);
    let mut c = cur.clone();
    c.no_std = true;
    try_set(&mut cur, c, &mut b);
    for p in cur.io_errors.clone() {
        let mut c = cur.clone();
        c.io_errors.retain(|x| *x != p);
        try_set(&mut cur, c, &mut b);
    }

    // 3. drop files
    for k in cur.files.keys().cloned().collect::<Vec<_>>() {
        if k == cur.main {
            continue;
        }
        let mut c = cur.clone();
        c.files.remove(&k);
        c.render.overrides.remove(&k);
        try_set(&mut cur, c, &mut b);
    }

    // 4. ddmin over lines, then over characters of short files
    for k in cur.files.keys().cloned().collect::<Vec<_>>() {
        let text = cur.files[&k].clone();
        let lines: Vec<String> = crate::faults::lines_of(&text).iter().map(|s| s.to_string()).collect();
        let base = cur.clone();
        let best = ddmin(lines, &mut b, &mut |ls: &[String], b: &mut Budget| {
            if !b.take() {
                return false;
            }
            let mut c = base.clone();
            c.files.insert(k.clone(), ls.concat());
            test(&c)
        });
        cur.files.insert(k.clone(), best.concat());
        let text = cur.files[&k].clone();
        if text.chars().count() <= 600 {
            let chars: Vec<char> = text.chars().collect();
            let base = cur.clone();
            let best = ddmin(chars, &mut b, &mut |cs: &[char], b: &mut Budget| {
                if !b.take() {
                    return false;
                }
                let mut c = base.clone();
                c.files.insert(k.clone(), cs.iter().collect());
                test(&c)
            });
            cur.files.insert(k.clone(), best.iter().collect());
        }
    }

    // 5. smallest hash seed that still fails
    for hs in 0..16u64 {
        if hs == cur.hash_seed {
            break;
        }
        let mut c = cur.clone();
        c.hash_seed = hs;
        if try_set(&mut cur, c, &mut b) {
            break;
        }
    }

    // the result must itself fail (ddmin only accepts failing candidates, but be certain)
    if !test(&cur) {
        return (start.clone(), b.used);
    }
    (cur, b.used)
}
