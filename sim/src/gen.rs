//! generate(seed) → Scenario for the corpus / token-soup / generated-project
//! workloads with storage, reader, sink and render-time faults (swarm style:
//! every run draws its own workload family, enabled fault kinds and fault count).
//! All randomness is consumed here, from named sub-streams of one seed.

use crate::corpus::Corpus;
use crate::faults::{line_count, lines_of};
use crate::rng::Rng;
use crate::scenario::{Concrete, Fault, RenderPlan, Scenario, SinkPlan, SIM_ROOT};
use std::collections::BTreeMap;

#[derive(Clone, Copy, Debug, PartialEq)]
pub enum Bias {
    /// C07: everything
    General,
    /// C16: several independent errors, several files
    MultiError,
    /// C20 layer A: mostly accepted programs, sink plans emphasised
    Sink,
}

pub const TOKENS: &[&str] = &[
    "a", "b", "x", "foo", "A", "B", "self", "start", "print", "int", "float", "str", "bool", "void", "nil", "true",
    "false", "1", "2", "0", "1.5", "\"s\"", "\"\"", "if", "elif", "else", "case", "is", "break", "continue", "in",
    "loop", "blob", "externblob", "enum", "ret", "+", "-", "*", "/", "+=", "-=", "*=", "/=", "#", ":", "::", ":=", "=",
    "==", "!=", "<=>", "<!>", "(", ")", "[", "]", "{", "}", "do", "end", ">", ">=", "<", "<=", "fn", "pu", "and", "or",
    "not", "!", "?", "|", "'", ",", ".", "->", "\n", "\n", "\n", "use", "from", "as", "external", "// c", "*T", "@",
];

const CHAR_ALPHABET: &[char] = &[
    '(', ')', '{', '}', '[', ']', ':', '=', '.', ',', '\'', '"', '\n', '+', '-', '*', '/', '<', '>', '!', '#', ' ', 'a',
    'e', 'x', 'A', '_', '0', '1', '9', '|', '?', '\\', '\t', '\r', '@', '$', '~',
];

const MULTIBYTE: &[char] = &['å', 'ö', 'é', '→', '€', '日', '😀', '\u{301}', '\u{feff}', '\u{a0}'];

/// Declarations that are legal at top level and wrong (or at least unusual) elsewhere,
/// and headers whose bodies come from whatever follows: inserted as whole lines.
const DECL_LINES: &[&str] = &[
    "A :: blob { x: int }",
    "A :: blob {\n    a: Foo,\n    b: Bar,\n}",
    "B :: enum\n    X int,\n    Y,\nend",
    "C :: enum X, Y end",
    "q: int : external",
    "q: fn int -> int = external",
    "use other",
    "from other use a, b",
    "use / as r",
    "start :: fn do\nend",
    "f :: fn a: int -> int do\n    ret a\nend",
    "g :: fn -> do",
    "h :: pu fn x -> x end",
    "end",
    "do",
    "else do",
    "loop do",
    "if true do",
    "case x do",
    "X y do",
    "ret",
    "ret 1",
    "break",
    "x := 1",
    "x :: 1",
    "x = 2",
    "x: int = 1",
    "x += 1",
    "self.x = 1",
    "l := [1, 2, 3]",
    "t := (1, \"a\")",
    "a.b.c.d()",
    "a' 1, 2",
    "1 -> f' 2",
    "A { x: 1 }",
    "A.X 1",
    "<!>",
    "x <=> 1",
    // declarations that collide with what the standard preamble imports into every file
    "max :: 1",
    "print :: fn do end",
    "map := 2",
    "Maybe :: blob { a: int }",
    "list :: 3",
    "abs :: fn x -> x end",
    // ill-typed operations, on one line and spread over several
    "zz1 := 1 + \"a\"",
    "print(\"abc\" + 1)",
    "zz2 := (\"abc\" +\n1)",
    "print(\"abc\"\n    + 1,\n2)",
    "zz3 := [1,\n\"a\" < 2]",
    "zz4 := (1\n<=> \"a\")",
    "if (1 <\n\"a\") do\nend",
    "zz5 := (true and\n1)",
    "zz6 := -\"s\"",
    "zz7 := not\n1",
    // self-referential and generic shapes
    "zl := []\nzl = [zl]\nzl = 1",
    "zt := (1, 2)\nzt = (zt, zt)",
    "zf :: fn a -> a(a) end",
    // generic user types applied to too many, too few and repeated type arguments
    "Zp :: blob(*A) { a: *A }\nzp1: Zp(int, int) = Zp { a: 1 }",
    "Zp2 :: blob(*A, *B) { a: *A, b: *B }\nzp2: Zp2(int) = Zp2 { a: 1, b: 2 }",
    "Zp3 :: enum(*T)\n    Some *T,\n    None,\nend\nzp3: Zp3(int, str, bool) = Zp3.None",
    // tuple indices at, just past and before the ends
    "ztf :: fn do\n    t := (1, 2)\n    t[1]\n    t[2]\n    t[3]\nend",
    "ztg :: fn do\n    t := (1, \"s\", 2.0)\n    t[3]\n    t[-1]\n    t[0]\nend",
    "zth :: fn do\n    t := (1,)\n    t[1]\n    t[-0]\nend",
    "zti :: fn do\n    t := (1, 2)\n    t[-1]\nend",
    "ztj :: fn do\n    t := (1, 2)\n    t[2]\nend",
    "ztk :: fn -> int do\n    t := (1, 2, 3)\n    ret t[-2] + t[3]\nend",
    // several blocks closed on one line
    "zl1 :: fn do\n    i := 0\n    if i < 3 do loop i < 3 do i += 1 end end\nend",
    "zl2 :: fn do\n    i := 0\n    if i < 3 do loop i < 3 do i += 1 end else do i = 1 end\nend",
    "zl3 :: fn do loop do break end end",
    // names declared twice inside one declaration
    "Zd :: enum\n    A,\n    A,\nend",
    "Zd2 :: blob(*T, *T) { a: *T }",
    "Zd5 :: enum\n    A,\n    B,\n    A,\n    A,\n    A,\n    A,\n    A,\n    A,\n    A,\n    A,\nend",
    "Zd3 :: enum(*T, *T)\n    A *T,\nend",
    "Zd4 :: blob { a: int, a: str }",
    // loop control inside closures inside loops
    "loop do\n    zcl :: fn do\n        continue\n    end\n    zcl()\n    break\nend",
    "loop true do\n    zbr := fn -> int do\n        break\n        ret 1\n    end\n    break\nend",
    // generic constraint lists, on one line and broken over several
    "zg1: fn<a: Num> *a -> *a : fn a -> a + a end",
    "zg2: fn<a: Num, b: Num> *a, *b -> *a : fn a, b -> a end",
    "zg3: fn<a: Num\n, b: Num> *a, *b -> *a : fn a, b -> a end",
    "zg4: fn<a: Num,\n    b: Num\n> *a, *b -> *a : fn a, b -> a end",
    "zg5: fn<a: Num + Num, b: Container a> *a -> void : external",
    // a type that refers to itself through a second name, then a type error that has to print it
    "zc10 :: fn x, y do\n    y == (x,)\n    y == x\n    x + 1\nend",
    // an error located behind non-ASCII text on the same line
    "zl1 :: \"räksmörgås öl\" + 1",
    "zl2 := (\"日本語\", 1) + \"ö\"",
    "print(\"åäö\", \"ñ\" - 1)",
    // a value compared with, or combined with, a tuple that contains it
    "zc1 :: fn x -> x <= (x,) end",
    "zc2 :: fn x -> x >= (x, x) end",
    "zc3 :: fn x do\n    x == (x,)\n    x + x\nend",
    "zc4 :: fn x -> x - (x,) end",
    "zc5 :: fn x -> x * (x, 1) end",
    "zc6 :: fn x -> x / (x,) end",
    "zc7 :: fn x -> x < (x,) end",
    "zc8 :: fn x -> x == [x] end",
    "zc9 :: fn x, y do\n    x == (y,)\n    y == (x,)\n    x <= y\nend",
    "zg :: fn a, b do\n    a.x * b.y\nend\nzg(1, 2)",
    "Zr :: blob { next: Zr }",
    // mutual recursion between top-level functions, and between values
    "ze :: fn n -> bool do\n    if n == 0 do ret true end\n    ret zo(n - 1)\nend\nzo :: fn n -> bool do\n    if n == 0 do ret false end\n    ret ze(n - 1)\nend",
    "zp :: zq\nzq :: zp",
    "zh :: fn -> zh() end",
    // dead code after a return, holding things only one phase rejects
    "ret\nA :: blob { x: int }",
    "ret 1\nzmake() = 2",
    "ret\nq: int : external",
    "ret\n1 = 2",
    "ret 1\n\"dead\" + 1",
    // values that are computed and thrown away
    "zd1 := 1\nzd2 := 2\n(zd1 + zd2) * zd1\n-(zd1 - zd2) / zd2\nzd1 = 3",
    "zd3 := 1.5\n(zd3 * zd3) + (zd3 - zd3)\nzd3 < zd3\nzd3 = 2.5",
    "zt0 := zt0 + 1",
    "zt1 :: zt1",
    // import forms the language might grow, and `start` obtained through an import
    "from other use *",
    "from b use *",
    "from ma use *",
    "from mb use *",
    "from _constants use *",
    "from /main use *",
    "use other as start",
    "from other use a as start",
    "from ma use qva as start",
    "from mb use qf0 as start",
    "from _constants use one as start",
    // errors located at string literals that span lines
    "zs6: int = \"hello,\nw\"",
    "print(1 + \"multi\nline\")",
    "zs7 :: fn a: int -> a end\nzs7(\"a string that is long on its first line\n.\")",
    // string literals that span lines, with characters of several UTF-8 widths
    "zs1 := \"äöü\n\"\nzs1 <=> zs1",
    "zs2 := \"日本語のテキスト😀😀😀\nx\"\nprint(zs2)",
    "zs3 := \"line one\nline two\nline three\"",
    "zs4 := \"é\n\n\n\"; zs4",
    "\"unterminated ååå",
    "zs5 := \"ends with a backslash\\\"",
    "Ze :: enum\n    A Ze,\n    B,\nend",
];

fn token_soup(r: &mut Rng, n: usize) -> String {
    let mut s = String::new();
    for _ in 0..n {
        s.push_str(*r.pick(TOKENS));
        s.push(if r.chance(1, 12) { '\n' } else { ' ' });
    }
    s.push('\n');
    s
}

fn interesting_lines(text: &str) -> Vec<usize> {
    const KEYS: &[&str] = &[
        "fn", "do", "end", "blob", "enum", "use ", "from ", "case", "else", "loop", "if ", "::", "ret", "{", "}",
    ];
    lines_of(text)
        .iter()
        .enumerate()
        .filter(|(_, l)| KEYS.iter().any(|k| l.contains(k)))
        .map(|(i, _)| i)
        .collect()
}

fn pick_line(r: &mut Rng, text: &str) -> usize {
    let n = line_count(text);
    if n == 0 {
        return 0;
    }
    if r.chance(1, 2) {
        let il = interesting_lines(text);
        if !il.is_empty() {
            let l = *r.pick(&il);
            // on it or adjacent
            return (l + r.below(3)).saturating_sub(1).min(n);
        }
    }
    r.below(n + 1)
}

fn pick_char(r: &mut Rng, text: &str) -> usize {
    let n = text.chars().count();
    if n == 0 {
        return 0;
    }
    if r.chance(1, 2) {
        // inside an interesting line
        let ls = lines_of(text);
        let il = interesting_lines(text);
        if !il.is_empty() {
            let l = *r.pick(&il);
            let before: usize = ls[..l].iter().map(|x| x.chars().count()).sum();
            let len = ls[l].chars().count();
            return before + r.below(len + 1);
        }
    }
    r.below(n + 1)
}

fn identifiers(text: &str) -> Vec<(usize, usize, String)> {
    // (char offset, char length, word) of every identifier-like word outside comments and strings
    let cs: Vec<char> = text.chars().collect();
    let mut out = Vec::new();
    let mut i = 0;
    while i < cs.len() {
        let c = cs[i];
        if c == '/' && i + 1 < cs.len() && cs[i + 1] == '/' {
            while i < cs.len() && cs[i] != '\n' {
                i += 1;
            }
            continue;
        }
        if c == '"' {
            i += 1;
            while i < cs.len() && cs[i] != '"' {
                i += 1;
            }
            i += 1;
            continue;
        }
        if c.is_ascii_alphabetic() || c == '_' {
            let st = i;
            while i < cs.len() && (cs[i].is_ascii_alphanumeric() || cs[i] == '_') {
                i += 1;
            }
            out.push((st, i - st, cs[st..i].iter().collect()));
            continue;
        }
        i += 1;
    }
    out
}

const KEYWORDS: &[&str] = &[
    "fn", "pu", "do", "end", "if", "elif", "else", "case", "loop", "break", "continue", "ret", "blob", "externblob", "enum",
    "use", "from", "as", "external", "and", "or", "not", "in", "is", "true", "false", "nil",
];

const SWAP_WORDS: &[&str] = &["int", "float", "str", "bool", "void", "self", "start", "print", "x", "a", "A", "B", "list", "max", "Maybe", "nil", "true"];

pub const FAULT_KINDS: &[&str] = &[
    "trunc-char", "trunc-line", "replace-char", "insert-char", "delete-char", "splice", "drop-lines", "dup-lines",
    "move-lines", "insert-foreign", "conflict", "multibyte", "token-soup", "empty", "crlf", "remove", "ioerr",
    "insert-decl", "rename-ident", "swap-literal", "reflow", "alias-start", "wildcard-import", "join-lines", "bom", "strip-final-newline",
];

fn make_fault(r: &mut Rng, kind: &str, file: &str, text: &str, corpus: &Corpus, c: &Concrete) -> Option<Fault> {
    let file = file.to_string();
    let nlines = line_count(text);
    Some(match kind {
        "trunc-char" => Fault::TruncChar { file, at: pick_char(r, text) },
        "trunc-line" => Fault::TruncLine { file, line: pick_line(r, text) },
        "replace-char" => Fault::ReplaceChar { file, at: pick_char(r, text), ch: *r.pick(CHAR_ALPHABET) },
        "insert-char" => Fault::InsertChar { file, at: pick_char(r, text), ch: *r.pick(CHAR_ALPHABET) },
        "delete-char" => Fault::DeleteChar { file, at: pick_char(r, text) },
        "multibyte" => Fault::InsertChar { file, at: pick_char(r, text), ch: *r.pick(MULTIBYTE) },
        "splice" => {
            // tail comes from another file of the project, another corpus file, or this file itself (older version)
            let donor: String = match r.below(3) {
                0 if c.files.len() > 1 => {
                    let keys: Vec<&String> = c.files.keys().collect();
                    c.files[*r.pick(&keys)].clone()
                }
                1 => text.to_string(),
                _ => corpus.files[r.pick(&corpus.donors)].clone(),
            };
            let n = donor.chars().count();
            let from = r.below(n + 1);
            let tail: String = donor.chars().skip(from).take(4096).collect();
            Fault::Splice { file, at: pick_char(r, text), tail }
        }
        "drop-lines" => Fault::DropLines { file, line: pick_line(r, text), n: r.range(1, 4) },
        "dup-lines" => Fault::DupLines { file, line: pick_line(r, text), n: r.range(1, 4), to: pick_line(r, text) },
        "move-lines" => Fault::MoveLines { file, line: pick_line(r, text), n: r.range(1, 4), to: pick_line(r, text) },
        "insert-foreign" => {
            let donor = &corpus.files[r.pick(&corpus.donors)];
            let ls = lines_of(donor);
            if ls.is_empty() {
                return None;
            }
            let a = r.below(ls.len());
            let b = (a + r.range(1, 4)).min(ls.len());
            Fault::InsertLines { file, at: pick_line(r, text), text: ls[a..b].concat(), what: "foreign".into() }
        }
        "insert-decl" => {
            let mut t = String::new();
            for _ in 0..r.range(1, 2) {
                t.push_str(*r.pick(DECL_LINES));
                t.push('\n');
            }
            Fault::InsertLines { file, at: pick_line(r, text), text: t, what: "decl".into() }
        }
        "conflict" => {
            let at = pick_line(r, text);
            let marker = match r.below(4) {
                0 => "<<<<<<< HEAD",
                1 => "=======",
                2 => ">>>>>>> branch",
                _ => "<<<<<<< HEAD\n=======\n>>>>>>> other",
            };
            Fault::InsertLines { file, at, text: marker.into(), what: "conflict".into() }
        }
        "token-soup" => {
            let n = r.range(1, 24);
            let soup = token_soup(r, n);
            if r.chance(1, 2) {
                Fault::InsertLines { file, at: pick_line(r, text), text: soup, what: "tokens".into() }
            } else {
                Fault::ReplaceLines { file, line: pick_line(r, text), n: r.range(1, 3.min(nlines.max(1))), text: soup }
            }
        }
        "rename-ident" => {
            // an identifier (not a keyword) becomes another identifier of the same file, or a common word
            let ids: Vec<(usize, usize, String)> = identifiers(text).into_iter().filter(|(_, _, w)| !KEYWORDS.contains(&w.as_str())).collect();
            if ids.is_empty() {
                return None;
            }
            let (at, len, old) = r.pick(&ids).clone();
            let new = if r.chance(2, 3) { r.pick(&ids).2.clone() } else { r.pick(SWAP_WORDS).to_string() };
            if new == old {
                return None;
            }
            Fault::ReplaceRange { file, at, len, text: new, what: "ident".into() }
        }
        "swap-literal" => {
            // a literal changes its kind: 1 <-> "s" <-> 1.5 <-> true <-> nil <-> [] <-> (1, 2)
            let cs: Vec<char> = text.chars().collect();
            let mut lits: Vec<(usize, usize)> = Vec::new();
            let mut i = 0;
            while i < cs.len() {
                if cs[i] == '"' {
                    let st = i;
                    i += 1;
                    while i < cs.len() && cs[i] != '"' {
                        i += 1;
                    }
                    i = (i + 1).min(cs.len());
                    lits.push((st, i - st));
                } else if cs[i].is_ascii_digit() && (i == 0 || !(cs[i - 1].is_ascii_alphanumeric() || cs[i - 1] == '_')) {
                    let st = i;
                    while i < cs.len() && (cs[i].is_ascii_digit() || cs[i] == '.') {
                        i += 1;
                    }
                    lits.push((st, i - st));
                } else {
                    i += 1;
                }
            }
            if lits.is_empty() {
                return None;
            }
            let (at, len) = *r.pick(&lits);
            let new = *r.pick(&["1", "\"s\"", "1.5", "true", "nil", "[]", "(1, 2)", "[1]", "fn -> 1 end", "9223372036854775807", "99999999999999999999", "1e999", "0.0"]);
            Fault::ReplaceRange { file, at, len, text: new.to_string(), what: "literal".into() }
        }
        "reflow" => {
            // spaces inside brackets (where line breaks are legal) become line breaks
            let mut depth = 0i32;
            let mut cands = Vec::new();
            for (i, ch) in text.chars().enumerate() {
                match ch {
                    '(' | '[' | '{' => depth += 1,
                    ')' | ']' | '}' => depth = (depth - 1).max(0),
                    ' ' if depth > 0 => cands.push(i),
                    _ => {}
                }
            }
            if cands.is_empty() {
                // fall back to any spaces: breaks statements apart
                cands = text.chars().enumerate().filter(|(_, c)| *c == ' ').map(|(i, _)| i).collect();
                if cands.is_empty() {
                    return None;
                }
            }
            let n = r.range(1, 6.min(cands.len()));
            let mut positions = Vec::new();
            for _ in 0..n {
                positions.push(*r.pick(&cands));
            }
            positions.sort();
            positions.dedup();
            Fault::Reflow { file, positions, indent: *r.pick(&[0usize, 0, 1, 4, 8]) }
        }
        "bom" => Fault::InsertChar { file, at: 0, ch: '\u{feff}' },
        "strip-final-newline" => {
            let n = text.chars().count();
            let trailing = text.chars().rev().take_while(|c| *c == '\n' || *c == '\r' || *c == ' ').count();
            if trailing == 0 {
                return None;
            }
            Fault::TruncChar { file, at: n - trailing }
        }
        "join-lines" => {
            // a lost line break: line k and line k+1 become one line (joined by a space, or by nothing)
            let ls = lines_of(text);
            if ls.len() < 2 {
                return None;
            }
            let k = pick_line(r, text).min(ls.len() - 2);
            let before: usize = ls[..=k].iter().map(|l| l.chars().count()).sum();
            if !ls[k].ends_with('\n') {
                return None;
            }
            // the line break is the last character of line k; the next line's indentation goes with it
            let indent = ls[k + 1].chars().take_while(|c| *c == ' ' || *c == '\t').count();
            Fault::ReplaceRange { file, at: before - 1, len: 1 + indent, text: (if r.chance(3, 4) { " " } else { "" }).to_string(), what: "join".into() }
        }
        "wildcard-import" => {
            // an import form the language does not have (yet): everything from a module this file already imports
            let specs: Vec<String> = lines_of(text)
                .iter()
                .filter_map(|l| {
                    let t = l.trim();
                    t.strip_prefix("use ").or_else(|| t.strip_prefix("from ")).map(|r| r.split_whitespace().next().unwrap_or("").to_string())
                })
                .filter(|s| !s.is_empty())
                .collect();
            if specs.is_empty() {
                return None;
            }
            let spec = r.pick(&specs).clone();
            let line = match r.below(3) {
                0 => format!("from {} use *", spec),
                1 => format!("from {} use (*)", spec),
                _ => format!("use {}.*", spec),
            };
            Fault::InsertLines { file, at: 0, text: line, what: "wildcard".into() }
        }
        "alias-start" => {
            // the file no longer defines `start` itself but gets the name through an import
            let ls = lines_of(text);
            let def = ls.iter().position(|l| l.starts_with("start ::") || l.starts_with("start:"))?;
            let spec = ls
                .iter()
                .filter_map(|l| {
                    let t = l.trim();
                    t.strip_prefix("use ").or_else(|| t.strip_prefix("from ")).map(|r| r.split_whitespace().next().unwrap_or("").to_string())
                })
                .next()
                .unwrap_or_else(|| "other".to_string());
            let ids: Vec<String> = identifiers(text).into_iter().map(|(_, _, w)| w).filter(|w| !KEYWORDS.contains(&w.as_str())).collect();
            let name = if ids.is_empty() || r.chance(1, 2) { r.pick(&["a", "one", "zchk", "qva", "qvb", "qf0", "start"]).to_string() } else { r.pick(&ids).clone() };
            let new_line = match r.below(3) {
                0 => format!("use {} as start\nzold_start ::{}", spec, ls[def].splitn(2, "::").nth(1).unwrap_or(" fn do\n")),
                _ => format!("from {} use {} as start\nzold_start ::{}", spec, name, ls[def].splitn(2, "::").nth(1).unwrap_or(" fn do\n")),
            };
            Fault::ReplaceLines { file, line: def, n: 1, text: new_line }
        }
        "empty" => Fault::Empty { file },
        "crlf" => Fault::Crlf { file },
        "remove" => Fault::Remove { file },
        "ioerr" => Fault::IoErr { file },
        _ => return None,
    })
}

pub fn sink_plan(r: &mut Rng, bias: Bias) -> SinkPlan {
    let w: &[usize] = match bias {
        Bias::General => &[60, 10, 10, 8, 8, 4],
        Bias::MultiError => &[100, 0, 0, 0, 0, 0],
        Bias::Sink => &[10, 30, 15, 15, 15, 15],
    };
    // write calls are biased to the first (the preamble), the second (optional require) and late ones
    let call = match r.below(4) {
        0 => 0,
        1 => 1,
        2 => r.range(2, 40),
        _ => r.range(2, 2000),
    };
    match r.weighted(w) {
        0 => SinkPlan::Plain,
        1 => SinkPlan::LineWriter,
        2 => SinkPlan::FailAt { call, kind: r.pick(&["BrokenPipe", "Other", "Zero"]).to_string() },
        3 => SinkPlan::InterruptAt { call },
        4 => SinkPlan::ShortAt { call, keep: r.range(1, 64) },
        _ => SinkPlan::Chunked { max: *r.pick(&[1usize, 7, 64, 512, 4096]) },
    }
}

/// Long string literal programs exercise sinks with big single writes containing line breaks.
fn long_literal_program(r: &mut Rng) -> String {
    let mut s = String::from("start :: fn do\n");
    for i in 0..r.range(1, 3) {
        let mut lit = String::new();
        for _ in 0..r.range(1, 3) {
            let n = *r.pick(&[10usize, 500, 1100, 3000, 9000]);
            let wide = r.chance(1, 3);
            for _ in 0..n {
                if wide && r.chance(1, 6) {
                    lit.push(*r.pick(&['å', 'ö', 'é', '日', '本', '😀', '→']));
                } else {
                    lit.push((b'a' + r.below(26) as u8) as char);
                }
            }
            if r.chance(2, 3) {
                lit.push('\n');
            }
        }
        s.push_str(&format!("    s{} := \"{}\"\n    print(s{})\n", i, lit, i));
    }
    s.push_str("end\n");
    s
}

pub fn generate(seed: u64, corpus: &Corpus, bias: Bias) -> Scenario {
    let mut w = Rng::sub(seed, "workload");
    let mut notes = BTreeMap::new();

    // ---- workload family
    let fam_w: &[usize] = match bias {
        Bias::General => &[60, 8, 22, 8, 2],
        Bias::MultiError => &[54, 5, 35, 5, 1],
        Bias::Sink => &[49, 0, 25, 25, 1],
    };
    let family = w.weighted(fam_w);
    let mut base;
    let family_name;
    match family {
        1 => {
            family_name = "token-soup";
            let main = format!("{}/soup/main.sy", SIM_ROOT);
            base = Concrete::new(&main);
            let n = w.range(1, 200);
            base.files.insert(main, token_soup(&mut w, n));
        }
        2 => {
            family_name = "generated-project";
            let p = crate::modgen::generate(seed);
            base = p.concrete.clone();
            notes.insert("project".into(), p.describe());
        }
        4 => {
            // a deep graph of global definitions with sharing: every constant is the sum of the two before it
            family_name = "global-dependency-chain";
            let main = format!("{}/chain/main.sy", SIM_ROOT);
            base = Concrete::new(&main);
            let n = *w.pick(&[3usize, 8, 20, 40, 65, 90]);
            let mut t = String::new();
            let mut order: Vec<usize> = (0..n).collect();
            if w.chance(1, 2) {
                // definitions in a scrambled order: the compiler has to sort them
                w.shuffle(&mut order);
            }
            for k in order {
                if k < 2 {
                    t.push_str(&format!("zk{} :: 1\n", k));
                } else {
                    t.push_str(&format!("zk{} :: zk{} + zk{}\n", k, k - 1, k - 2));
                }
            }
            t.push_str(&format!("start :: fn do\n    zk{} <=> zk{}\nend\n", n - 1, n - 1));
            base.files.insert(main, t);
        }
        3 => {
            family_name = "long-literal";
            let main = format!("{}/lit/main.sy", SIM_ROOT);
            base = Concrete::new(&main);
            base.files.insert(main, long_literal_program(&mut w));
        }
        _ => {
            family_name = "corpus";
            let main = w.pick(&corpus.mains).clone();
            base = Concrete::new(&main);
            base.files = corpus.project_of(&main);
            notes.insert("corpus_main".into(), main);
        }
    }

    // ---- flags
    let mut fl = Rng::sub(seed, "flags");
    base.no_std = fl.chance(1, 8);
    if fl.chance(1, 8) {
        base.require = Some(fl.pick(crate::layerb::REQUIRE_NAMES).to_string());
    }

    if fl.chance(1, 8) {
        base.main_spelling = fl.pick(&["bare", "dot-slash", "relative-dir"]).to_string();
    }

    // ---- hash seed
    base.hash_seed = Rng::sub(seed, "hash").next();

    // ---- sink plan
    base.sink = sink_plan(&mut Rng::sub(seed, "sink"), bias);

    // ---- storage / reader faults
    let mut f = Rng::sub(seed, "faults");
    let count_w: &[usize] = match bias {
        Bias::General => &[15, 50, 25, 7, 3],
        Bias::MultiError => &[5, 15, 35, 30, 15],
        Bias::Sink => &[70, 20, 10, 0, 0],
    };
    let nfaults = f.weighted(count_w);
    let mut enabled: Vec<&str> = FAULT_KINDS.iter().copied().filter(|_| f.chance(1, 2)).collect();
    if enabled.len() < 2 {
        enabled = vec![FAULT_KINDS[f.below(FAULT_KINDS.len())], FAULT_KINDS[f.below(FAULT_KINDS.len())]];
    }
    let mut faults = Vec::new();
    let mut cur = base.clone();
    for _ in 0..nfaults {
        let keys: Vec<String> = cur.files.keys().cloned().collect();
        if keys.is_empty() {
            break;
        }
        let target = if f.chance(3, 5) && cur.files.contains_key(&cur.main) { cur.main.clone() } else { f.pick(&keys).clone() };
        let kind = *f.pick(&enabled);
        let text = cur.files[&target].clone();
        if let Some(fault) = make_fault(&mut f, kind, &target, &text, corpus, &cur) {
            crate::faults::apply(&mut cur, &fault);
            faults.push(fault);
        }
    }

    // ---- render-time plan (error rendering re-reads the real disk)
    let mut rr = Rng::sub(seed, "render");
    let mut render = RenderPlan::default();
    if rr.chance(1, 4) {
        render.materialise = true;
        let keys: Vec<String> = cur.files.keys().cloned().collect();
        if !keys.is_empty() {
            let k = if rr.chance(2, 3) && cur.files.contains_key(&cur.main) { cur.main.clone() } else { rr.pick(&keys).clone() };
            match rr.below(6) {
                0 => {
                    render.overrides.insert(k, None);
                }
                1 => {
                    let t = &cur.files[&k];
                    let n = line_count(t);
                    let keep = rr.below(n + 1);
                    render.overrides.insert(k.clone(), Some(lines_of(t)[..keep].concat()));
                }
                2 => {
                    if let Some(orig) = base.files.get(&k) {
                        render.overrides.insert(k, Some(orig.clone()));
                    }
                }
                3 => {
                    render.overrides.insert(k, Some(String::new()));
                }
                _ => {}
            }
        }
    }
    base.render = render;

    Scenario { seed, family: family_name.to_string(), base, faults, notes }
}

/// Screening to the property's own bound ("nesting depth bounded so that native stack
/// depth is not what is being measured") and to the harness' size bound.
pub fn nesting_depth(text: &str) -> usize {
    nesting_depth_opt(text, true)
}

/// Without the column-0 reset: an opener that is never closed keeps counting. This is the
/// conservative measure used before a stack overflow is blamed on the compiler.
pub fn nesting_depth_strict(text: &str) -> usize {
    nesting_depth_opt(text, false)
}

pub fn nesting_depth_opt(text: &str, reset_at_column_zero: bool) -> usize {
    // Token-level estimate of construct nesting. A line that starts a new top-level
    // statement (column 0, not a closer) resets the depth, so sequences do not accumulate.
    let mut depth: i64 = 0;
    let mut max: i64 = 0;
    let mut pending_fn = false;
    for line in text.split('\n') {
        let first = line.chars().next();
        let first_word: String = line.chars().take_while(|c| c.is_ascii_alphanumeric() || *c == '_').collect();
        if let (true, Some(c)) = (reset_at_column_zero, first) {
            if !c.is_whitespace() && !matches!(c, ')' | ']' | '}') && !matches!(first_word.as_str(), "end" | "else" | "elif") {
                depth = 0;
                pending_fn = false;
            }
        }
        let cs: Vec<char> = line.chars().collect();
        let mut i = 0;
        while i < cs.len() {
            let c = cs[i];
            if c == '/' && i + 1 < cs.len() && cs[i + 1] == '/' {
                break;
            }
            if c == '"' {
                i += 1;
                while i < cs.len() && cs[i] != '"' {
                    i += 1;
                }
                i += 1;
                continue;
            }
            if c.is_ascii_alphanumeric() || c == '_' {
                let st = i;
                while i < cs.len() && (cs[i].is_ascii_alphanumeric() || cs[i] == '_') {
                    i += 1;
                }
                let w: String = cs[st..i].iter().collect();
                match w.as_str() {
                    "fn" => pending_fn = true,
                    "do" => {
                        depth += 1;
                        pending_fn = false;
                    }
                    "enum" => depth += 1,
                    "end" | "else" | "elif" => depth = (depth - 1).max(0),
                    _ => {}
                }
                max = max.max(depth);
                continue;
            }
            match c {
                '-' if i + 1 < cs.len() && cs[i + 1] == '>' => {
                    if pending_fn {
                        depth += 1;
                        pending_fn = false;
                    }
                    i += 1;
                }
                '(' | '[' | '{' => depth += 1,
                ')' | ']' | '}' => depth = (depth - 1).max(0),
                _ => {}
            }
            max = max.max(depth);
            i += 1;
        }
    }
    max as usize
}

pub const MAX_FILE_BYTES: usize = 48 * 1024;
pub const MAX_NESTING: usize = 12;

pub fn screened_out(c: &Concrete) -> bool {
    c.files.values().any(|t| t.len() > MAX_FILE_BYTES || nesting_depth(t) > MAX_NESTING)
}
