//! Oracles. `evaluate(prop, concrete, extra)` executes a realised scenario under the
//! variations the property calls for and returns every violation it shows. The same
//! function serves the search, the minimiser and replay.

use crate::exec::{execute, Outcome, ResultObs};
use crate::json::J;
use crate::rng::fnv64;
use crate::scenario::{Concrete, RenderPlan, SinkPlan};
use std::collections::{BTreeMap, BTreeSet};

#[derive(Clone, Debug)]
pub struct Violation {
    pub prop: String,
    /// which oracle clause
    pub clause: String,
    /// violation class within the clause (panic key, sink kind, ...): minimisation preserves (clause, class)
    pub class: String,
    pub detail: String,
}

impl Violation {
    pub fn id(&self) -> String {
        format!("{}/{}", self.clause, self.class)
    }
    pub fn to_json(&self) -> J {
        J::obj()
            .set("property", J::s(&self.prop))
            .set("clause", J::s(&self.clause))
            .set("class", J::s(&self.class))
            .set("detail", J::s(&self.detail))
    }
}

fn v(prop: &str, clause: &str, class: &str, detail: String) -> Violation {
    Violation { prop: prop.into(), clause: clause.into(), class: class.into(), detail }
}

// ------------------------------------------------------------------------------------
// C07: totality

pub fn check_c07(out: &Outcome) -> Vec<Violation> {
    let mut vs = Vec::new();
    if let Some(p) = &out.panic {
        vs.push(v("C07", "panic", &p.key(), format!("compile panicked at {}:{}: {}", p.file, p.line, p.msg)));
    }
    for p in &out.render_panics {
        vs.push(v("C07", "render-panic", &p.key(), format!("rendering an error panicked at {}:{}: {}", p.file, p.line, p.msg)));
    }
    if let ResultObs::Err(es) = &out.result {
        if es.is_empty() {
            vs.push(v("C07", "empty-error-list", "-", "compilation failed with an empty list of errors".into()));
        }
        for e in es {
            if let Some(r) = &e.rendered {
                if r.trim().is_empty() {
                    vs.push(v("C07", "empty-rendering", e.variant, format!("error renders to nothing: {}", e.debug)));
                }
            }
        }
    }
    // loader bound: the worklist never asks for the same path twice (a loop shows here first)
    let mut seen = BTreeSet::new();
    for (p, _) in &out.reads {
        if !seen.insert(p.clone()) {
            vs.push(v("C07", "read-twice", "-", format!("the loader requested {} twice", p)));
            break;
        }
    }
    vs
}

// ------------------------------------------------------------------------------------
// C16: determinism across hash seeds and history

pub fn first_diff(a: &str, b: &str) -> String {
    for (i, (x, y)) in a.lines().zip(b.lines()).enumerate() {
        if x != y {
            let cut = |s: &str| s.chars().take(300).collect::<String>();
            return format!("first difference at observation line {}:\n  A: {}\n  B: {}", i + 1, cut(x), cut(y));
        }
    }
    format!("observations differ in length: {} vs {} lines", a.lines().count(), b.lines().count())
}

/// extra: {"hash_seeds": [..]} — the variations to compare against seed `c.hash_seed`.
pub fn check_c16(c: &Concrete, hash_seeds: &[u64]) -> (Vec<Violation>, Outcome, usize) {
    let reference = execute(c);
    let ref_obs = reference.observation();
    let mut vs = Vec::new();
    let mut distinct = BTreeSet::new();
    distinct.insert(fnv64(ref_obs.as_bytes()));
    for hs in hash_seeds {
        let mut c2 = c.clone();
        c2.hash_seed = *hs;
        let o = execute(&c2);
        let obs = o.observation();
        distinct.insert(fnv64(obs.as_bytes()));
        if obs != ref_obs && vs.is_empty() {
            let class = match (&reference.result, &o.result) {
                (ResultObs::Ok, ResultObs::Ok) => "lua-bytes",
                (ResultObs::Err(_), ResultObs::Err(_)) => "error-list",
                _ => "accept-vs-reject",
            };
            vs.push(v(
                "C16",
                "hash-seed",
                class,
                format!("hash_seed {} vs hash_seed {}: {}", c.hash_seed, hs, first_diff(&ref_obs, &obs)),
            ));
        }
    }
    // history: the reference variation again, after the others ran in this thread
    let again = execute(c);
    let obs = again.observation();
    if obs != ref_obs {
        vs.push(v(
            "C16",
            "history",
            "same-thread",
            format!("same scenario, same hash seed, after {} other compilations: {}", hash_seeds.len(), first_diff(&ref_obs, &obs)),
        ));
    }
    // environment: how the main file is named on the command line (and from which directory) must not
    // change the emitted program
    if matches!(reference.result, ResultObs::Ok) {
        for sp in ["absolute", "bare", "dot-slash", "relative-dir"] {
            if sp == c.main_spelling {
                continue;
            }
            let mut c2 = c.clone();
            c2.main_spelling = sp.to_string();
            let o = execute(&c2);
            if !matches!(o.result, ResultObs::Ok) || o.sink_bytes != reference.sink_bytes {
                vs.push(v(
                    "C16",
                    "environment",
                    "main-file-spelling",
                    format!(
                        "main file given as {} vs as {}: {} bytes of Lua vs {}",
                        c.main_spelling,
                        sp,
                        reference.sink_bytes.len(),
                        match &o.result {
                            ResultObs::Ok => format!("{} bytes", o.sink_bytes.len()),
                            _ => "a rejection".to_string(),
                        }
                    ),
                ));
                break;
            }
        }
    }
    // several compilations of the same sources at the same time, in one process (what a build tool or a language
    // server embedding the compiler does). The threads' schedule is the operating system's, not the simulator's:
    // this clause can only be replayed probabilistically, and says so.
    if matches!(reference.result, ResultObs::Ok) && c.fnv() % 8 == 0 {
        let barrier = std::sync::Arc::new(std::sync::Barrier::new(4));
        let root = crate::exec::root();
        let mut handles = Vec::new();
        for _ in 0..4 {
            let c3 = c.clone();
            let b = barrier.clone();
            let root = root.clone();
            handles.push(std::thread::Builder::new().stack_size(256 << 20).spawn(move || {
                crate::exec::set_root(&root);
                b.wait();
                let mut outs = Vec::new();
                for _ in 0..3 {
                    outs.push(execute(&c3).sink_bytes);
                }
                outs
            }));
        }
        let mut differs = None;
        for h in handles {
            if let Ok(h) = h {
                if let Ok(outs) = h.join() {
                    for o in outs {
                        if o != reference.sink_bytes && differs.is_none() {
                            differs = Some(o.len());
                        }
                    }
                } else if differs.is_none() {
                    differs = Some(0);
                }
            }
        }
        if let Some(n) = differs {
            vs.push(v(
                "C16",
                "concurrency",
                "parallel-compilations-in-one-process",
                format!("four threads compiling the same sources at the same time: one of them emitted {} bytes that differ from the {} bytes of a compilation on its own (thread schedule not controlled: replay is probabilistic)", n, reference.sink_bytes.len()),
            ));
        }
    }
    // history: a brand-new thread that never compiled anything, against a brand-new thread that first
    // compiled four fixed programs of other shapes (other module layouts, rejected, std-free)
    let c1 = c.clone();
    let fresh = crate::exec::in_fresh_thread(move || execute(&c1).observation());
    let c2 = c.clone();
    let used = crate::exec::in_fresh_thread(move || {
        for (_, canary) in canaries() {
            let _ = execute(&canary);
        }
        // ... and after a compilation of the same sources whose sink failed half-way
        let mut failing = c2.clone();
        failing.sink = SinkPlan::FailAt { call: 0, kind: "Other".into() };
        let _ = execute(&failing);
        execute(&c2).observation()
    });
    match (fresh, used) {
        (Some(f), Some(u)) => {
            if f != u {
                vs.push(v(
                    "C16",
                    "history",
                    "fresh-thread-vs-after-other-compilations",
                    format!("same scenario, same hash seed; compiled first in a new thread vs after four other programs in a new thread: {}", first_diff(&f, &u)),
                ));
            } else if f != ref_obs {
                vs.push(v(
                    "C16",
                    "history",
                    "worker-thread-history",
                    format!("same scenario, same hash seed; in a new thread vs in the long-lived worker thread: {}", first_diff(&f, &ref_obs)),
                ));
            }
        }
        _ => {
            vs.push(v("C16", "history", "thread-died", "a compilation in a fresh thread did not return".into()));
        }
    }
    (vs, reference, distinct.len())
}

/// Fixed programs compiled between two compilations of the scenario under test: a one-file
/// program, a three-file project, a rejected two-file project, a std-free program.
pub fn canaries() -> Vec<(&'static str, Concrete)> {
    let root = crate::scenario::SIM_ROOT;
    let mut out = Vec::new();
    let mut a = Concrete::new(&format!("{}/canary-a/main.sy", root));
    a.files.insert(a.main.clone(), "start :: fn do\n    x := 1\n    x <=> 1\nend\n".into());
    out.push(("one-file", a));
    let mut b = Concrete::new(&format!("{}/canary-b/main.sy", root));
    b.files.insert(b.main.clone(), "use one\nuse sub/two\nstart :: fn do\n    one.a + two.b <=> 3\nend\n".into());
    b.files.insert(format!("{}/canary-b/one.sy", root), "a :: 1\n".into());
    b.files.insert(format!("{}/canary-b/sub/two.sy", root), "use /one\nb :: one.a + 1\n".into());
    out.push(("three-files", b));
    let mut c = Concrete::new(&format!("{}/canary-c/main.sy", root));
    c.files.insert(c.main.clone(), "use other\nmax :: 1\nstart :: fn do\n    y: str = other.nope\n    1 +\nend\n".into());
    c.files.insert(format!("{}/canary-c/other.sy", root), "A :: blob { f: Zork }\n".into());
    out.push(("rejected-two-files", c));
    let mut d = Concrete::new(&format!("{}/canary-d/main.sy", root));
    d.no_std = true;
    d.files.insert(d.main.clone(), "start :: fn do\n    l := [1, 2]\nend\n".into());
    out.push(("no-std", d));
    out
}

// ------------------------------------------------------------------------------------
// C20 layer A: the library seam under every sink kind

pub fn preamble_text() -> String {
    let p = format!("{}/sylt-compiler/src/preamble.lua", crate::corpus::repo_root());
    std::fs::read_to_string(p).unwrap_or_default()
}

fn count_occurrences(hay: &[u8], needle: &[u8]) -> Vec<usize> {
    let mut out = Vec::new();
    if needle.is_empty() || hay.len() < needle.len() {
        return out;
    }
    let mut i = 0;
    while i + needle.len() <= hay.len() {
        if &hay[i..i + needle.len()] == needle {
            out.push(i);
            i += needle.len();
        } else {
            i += 1;
        }
    }
    out
}

/// `with` must be `without` plus exactly one `require "M'"` placed after the preamble.
pub fn check_require(prop: &str, module: &str, with: &[u8], without: &[u8], preamble: &str) -> Vec<Violation> {
    let mut vs = Vec::new();
    let m = module.strip_suffix(".lua").unwrap_or(module);
    let needle = format!("require \"{}\"", m);
    let occ_with = count_occurrences(with, needle.as_bytes());
    let occ_without = count_occurrences(without, needle.as_bytes());
    if occ_with.len() != occ_without.len() + 1 {
        vs.push(v(
            prop,
            "require",
            "count",
            format!("--require {}: {} occurrence(s) of `{}` in the output, {} without the flag", module, occ_with.len(), needle, occ_without.len()),
        ));
        return vs;
    }
    // some occurrence lies after the preamble, and removing it (with at most one adjacent line break) gives `without`
    let pre_len = if without.starts_with(preamble.as_bytes()) { preamble.len() } else { 0 };
    let mut ok = false;
    let mut before_preamble = false;
    for &at in &occ_with {
        let end = at + needle.len();
        let mut candidates: Vec<Vec<u8>> = Vec::new();
        candidates.push([&with[..at], &with[end..]].concat());
        if end < with.len() && with[end] == b'\n' {
            candidates.push([&with[..at], &with[end + 1..]].concat());
        }
        if at > 0 && with[at - 1] == b'\n' {
            candidates.push([&with[..at - 1], &with[end..]].concat());
        }
        if candidates.iter().any(|c| c.as_slice() == without) {
            if at >= pre_len {
                ok = true;
            } else {
                before_preamble = true;
            }
        }
    }
    if !ok {
        let (class, why) = if before_preamble {
            ("position", "the require line is not after the runtime preamble")
        } else {
            ("other-change", "removing the require line does not give the output without the flag")
        };
        vs.push(v(prop, "require", class, format!("--require {}: {}", module, why)));
    }
    vs
}

pub struct LayerA {
    pub violations: Vec<Violation>,
    pub main: Outcome,
    pub reference: Outcome,
}

pub fn check_c20a(c: &Concrete, preamble: &str, std_free: bool, base_main: Option<&str>) -> LayerA {
    let mut vs = Vec::new();
    let out = execute(c);
    // reference bytes B(s): same scenario, fault-free accepting sink
    let mut cref = c.clone();
    cref.sink = SinkPlan::Plain;
    cref.render = RenderPlan::default();
    let reference = execute(&cref);

    // A1: nothing reaches the sink when compilation fails
    if let ResultObs::Err(_) = &out.result {
        if !out.writes.is_empty() {
            vs.push(v(
                "C20",
                "partial-output-on-failure",
                c.sink.kind(),
                format!("compilation failed but {} write call(s) reached the sink ({} bytes)", out.writes.len(), out.sink_bytes.len()),
            ));
        }
    }
    // every error is reported, also those of files behind a damaged importer: when the damage in the main file starts
    // after its last import line, the imports are read exactly as before the damage (parsing is sequential), so every
    // file the undamaged main file leads to is still loaded, and its errors can be reported in the same run
    if let (Some(base), Some(now)) = (base_main, c.files.get(&c.main)) {
        // lines are compared with their terminators; a file with conflict markers is documented not to be parsed at all
        let same: usize = base.split_inclusive('\n').zip(now.split_inclusive('\n')).take_while(|(a, b)| a == b).count();
        let is_import = |l: &str| l.starts_with("use ") || l.starts_with("from ");
        let base_lines: Vec<&str> = base.split_inclusive('\n').collect();
        // an import list in parentheses may span lines: the statement ends on the line with the closing parenthesis
        let last_import = base_lines.iter().enumerate().filter(|(_, l)| is_import(l)).map(|(i, _)| i).last().and_then(|i| {
            if base_lines[i].contains('(') && !base_lines[i].contains(')') {
                (i..base_lines.len()).find(|k| base_lines[*k].contains(')'))
            } else {
                Some(i)
            }
        });
        let conflict_markers = now.lines().any(|l| l.starts_with("<<<<<<<"));
        if let Some(li) = last_import {
            if li < same && !conflict_markers && !c.io_errors.contains(&c.main) && c.files.len() >= 2 {
                let mut undamaged = cref.clone();
                undamaged.files.insert(c.main.clone(), base.to_string());
                let uo = execute(&undamaged);
                let asked: std::collections::BTreeSet<&String> = reference.reads.iter().map(|(p, _)| p).collect();
                if let Some((missing, _)) = uo.reads.iter().find(|(p, _)| !asked.contains(p)) {
                    vs.push(v(
                        "C20",
                        "errors-lost",
                        "imports-of-a-damaged-file-not-followed",
                        format!(
                            "{} is damaged from line {} on, after its last import (line {}); undamaged it leads to {}, damaged that file is never read, so its errors cannot be reported",
                            c.main,
                            same + 1,
                            li + 1,
                            missing
                        ),
                    ));
                }
            }
        }
    }
    // every error is reported: a parse-level error that a loaded file shows when it is compiled on its own
    // must also be reported (located in that file) when the file is compiled as part of the project
    if let ResultObs::Err(es) = &reference.result {
        if reference.reads.len() >= 2 {
            for (path, res) in &reference.reads {
                if !matches!(res, crate::exec::ReadRes::Ok { .. }) {
                    continue;
                }
                let text = match c.files.get(path) {
                    Some(t) => t,
                    None => continue,
                };
                let mut alone = Concrete::new(path);
                alone.files.insert(path.clone(), text.clone());
                alone.no_std = c.no_std;
                alone.hash_seed = c.hash_seed;
                let ao = execute(&alone);
                if let ResultObs::Err(aes) = &ao.result {
                    let own: Vec<&crate::exec::ErrObs> = aes.iter().filter(|e| (e.variant == "SyntaxError" || e.variant == "GitConflictError") && e.file == *path).collect();
                    // the project may name the file relatively (it does when the main file was given relatively)
                    let same_file = |e: &crate::exec::ErrObs, a: &crate::exec::ErrObs| e.file == a.file || a.file.ends_with(&format!("/{}", e.file.trim_start_matches("./")));
                    if let Some(lost) = own.iter().find(|a| !es.iter().any(|e| e.variant == a.variant && same_file(e, a) && e.line == a.line)) {
                        vs.push(v(
                            "C20",
                            "errors-lost",
                            lost.variant,
                            format!("{} has a {} on line {} (reported when it is compiled on its own) but the project's error list, {} error(s), does not mention it", path, lost.variant, lost.line, es.len()),
                        ));
                        break;
                    }
                }
            }
        }
    }
    // accept/reject must not depend on the sink
    let same_verdict = matches!(
        (&out.result, &reference.result),
        (ResultObs::Ok, ResultObs::Ok) | (ResultObs::Err(_), ResultObs::Err(_)) | (ResultObs::Panicked, ResultObs::Panicked)
    );
    if !same_verdict {
        vs.push(v("C20", "verdict-depends-on-sink", c.sink.kind(), "accept/reject differs between sink kinds".into()));
    }
    // A2: complete output on success unless an error was injected into the sink
    if matches!(out.result, ResultObs::Ok) && matches!(reference.result, ResultObs::Ok) {
        if reference.sink_bytes.is_empty() || !reference.sink_bytes.starts_with(preamble.as_bytes()) {
            vs.push(v("C20", "output-shape", "preamble", "accepted program but the output does not start with the runtime preamble".into()));
        }
        if !c.sink.injects_error() && out.sink_bytes != reference.sink_bytes {
            let clause = match c.sink {
                SinkPlan::LineWriter => "stdout-linewriter-incomplete",
                _ => "sink-contract",
            };
            let common = out.sink_bytes.iter().zip(reference.sink_bytes.iter()).take_while(|(a, b)| a == b).count();
            vs.push(v(
                "C20",
                clause,
                c.sink.kind(),
                format!(
                    "accepted program: {} bytes reached the sink, the complete program is {} bytes (first difference at byte {}); no error was injected, the sink only made legal partial progress",
                    out.sink_bytes.len(),
                    reference.sink_bytes.len(),
                    common
                ),
            ));
        }
        // A3: --require
        let mut calt = cref.clone();
        let module = match &c.require {
            Some(m) => {
                calt.require = None;
                m.clone()
            }
            None => {
                let m = crate::layerb::REQUIRE_NAMES[(c.hash_seed % crate::layerb::REQUIRE_NAMES.len() as u64) as usize];
                calt.require = Some(m.to_string());
                m.to_string()
            }
        };
        let alt = execute(&calt);
        if !matches!(alt.result, ResultObs::Ok) {
            vs.push(v("C20", "require", "verdict", format!("--require {} changes accept/reject", module)));
        } else if c.require.is_some() {
            vs.extend(check_require("C20", &module, &reference.sink_bytes, &alt.sink_bytes, preamble));
        } else {
            vs.extend(check_require("C20", &module, &alt.sink_bytes, &reference.sink_bytes, preamble));
        }
    }
    if std_free {
        let mut flipped = cref.clone();
        flipped.no_std = !c.no_std;
        let fo = execute(&flipped);
        let same = matches!((&reference.result, &fo.result), (ResultObs::Ok, ResultObs::Ok) | (ResultObs::Err(_), ResultObs::Err(_)));
        if !same {
            let word = |o: &Outcome| if matches!(o.result, ResultObs::Ok) { "accepted" } else { "rejected" };
            // the one way this is known to happen: the program defines a name the preamble imports into every file
            let with_std = if c.no_std { &fo } else { &reference };
            let only_collisions = match &with_std.result {
                ResultObs::Err(es) => !es.is_empty() && es.iter().all(|e| e.variant == "CompileError" && e.message.contains("Name collision")),
                _ => false,
            };
            vs.push(v(
                "C20",
                "no-std",
                if only_collisions { "collision-with-preamble-name" } else { "verdict" },
                format!("a program that does not use the standard library is {} with --no-std={} and {} with --no-std={}", word(&reference), c.no_std, word(&fo), flipped.no_std),
            ));
        }
    }
    LayerA { violations: vs, main: out, reference }
}

// ------------------------------------------------------------------------------------
// statistics shared by all batch modes

#[derive(Default, Clone, Debug)]
pub struct Stats {
    pub counters: BTreeMap<String, u64>,
    pub signatures: BTreeSet<u64>,
    pub nontrivial: BTreeSet<u64>,
    pub samples: Vec<J>,
    pub slowest_us: u64,
    pub slowest_index: u64,
}

impl Stats {
    pub fn inc(&mut self, k: &str) {
        *self.counters.entry(k.to_string()).or_insert(0) += 1;
    }
    pub fn add(&mut self, k: &str, n: u64) {
        *self.counters.entry(k.to_string()).or_insert(0) += n;
    }
    pub fn merge(&mut self, other: &Stats) {
        for (k, n) in &other.counters {
            *self.counters.entry(k.clone()).or_insert(0) += n;
        }
        self.signatures.extend(other.signatures.iter().copied());
        self.nontrivial.extend(other.nontrivial.iter().copied());
        for s in &other.samples {
            if self.samples.len() < 6 {
                self.samples.push(s.clone());
            }
        }
        if other.slowest_us > self.slowest_us {
            self.slowest_us = other.slowest_us;
            self.slowest_index = other.slowest_index;
        }
    }
    pub fn to_json(&self) -> J {
        let mut c = J::obj();
        for (k, n) in &self.counters {
            c.put(k, J::u(*n));
        }
        J::obj()
            .set("counters", c)
            .set("signatures", J::Arr(self.signatures.iter().map(|x| J::s(&format!("{:x}", x))).collect()))
            .set("nontrivial", J::Arr(self.nontrivial.iter().map(|x| J::s(&format!("{:x}", x))).collect()))
            .set("samples", J::Arr(self.samples.clone()))
            .set("slowest_us", J::u(self.slowest_us))
            .set("slowest_index", J::u(self.slowest_index))
    }
    pub fn from_json(j: &J) -> Stats {
        let mut s = Stats::default();
        if let Some(c) = j.get("counters").and_then(|c| c.as_obj()) {
            for (k, n) in c {
                s.counters.insert(k.clone(), n.as_u64().unwrap_or(0));
            }
        }
        let hexset = |k: &str| -> BTreeSet<u64> {
            j.get(k)
                .and_then(|a| a.as_arr())
                .map(|a| a.iter().filter_map(|x| x.as_str().and_then(|s| u64::from_str_radix(s, 16).ok())).collect())
                .unwrap_or_default()
        };
        s.signatures = hexset("signatures");
        s.nontrivial = hexset("nontrivial");
        s.samples = j.get("samples").and_then(|a| a.as_arr()).cloned().unwrap_or_default();
        s.slowest_us = j.u64_of("slowest_us");
        s.slowest_index = j.u64_of("slowest_index");
        s
    }
}

/// Behaviour signature of a run: (phase, multiset of error variants + first words, #reads, sink outcome, fault kinds).
pub fn signature(out: &Outcome, fault_kinds: &[&str], sink_kind: &str) -> u64 {
    let mut s = String::new();
    s.push_str(out.phase());
    if let ResultObs::Err(es) = &out.result {
        let mut items: Vec<String> = es
            .iter()
            .map(|e| format!("{}:{}", e.variant, e.message.split_whitespace().take(3).collect::<Vec<_>>().join(" ")))
            .collect();
        items.sort();
        s.push_str(&items.join("|"));
    }
    s.push_str(&format!("#r{}", out.reads.len()));
    s.push_str(sink_kind);
    s.push_str(if out.sink_fault_fired { "!" } else { "." });
    let mut fk: Vec<&str> = fault_kinds.to_vec();
    fk.sort();
    fk.dedup();
    s.push_str(&fk.join(","));
    fnv64(s.as_bytes())
}
