//! Scenario data: everything a run depends on, as plain data. `generate` (gen.rs,
//! modgen.rs) produces it from a seed; `execute` (exec.rs) consumes it without
//! drawing randomness or reading a clock.

use crate::json::J;
use std::collections::BTreeMap;

/// Root under which scenario paths live. Replaced by the worker's real scratch
/// directory when executing and normalised back in every observation.
pub const SIM_ROOT: &str = "/simfs";

#[derive(Clone, Debug, PartialEq)]
pub enum Fault {
    TruncChar { file: String, at: usize },
    TruncLine { file: String, line: usize },
    ReplaceChar { file: String, at: usize, ch: char },
    InsertChar { file: String, at: usize, ch: char },
    DeleteChar { file: String, at: usize },
    /// Torn write: keep the first `at` characters, then the given tail (taken from another file or version).
    Splice { file: String, at: usize, tail: String },
    DropLines { file: String, line: usize, n: usize },
    DupLines { file: String, line: usize, n: usize, to: usize },
    MoveLines { file: String, line: usize, n: usize, to: usize },
    InsertLines { file: String, at: usize, text: String, what: String },
    ReplaceLines { file: String, line: usize, n: usize, text: String },
    /// Replace `len` characters at `at` by `text` (an identifier or literal swapped for another one).
    ReplaceRange { file: String, at: usize, len: usize, text: String, what: String },
    /// A formatter or editor re-flowed the file half-way: the spaces at these character offsets
    /// became line breaks followed by `indent` spaces.
    Reflow { file: String, positions: Vec<usize>, indent: usize },
    Empty { file: String },
    Crlf { file: String },
    /// The reader reports the file as missing.
    Remove { file: String },
    /// The reader reports an I/O error for the file.
    IoErr { file: String },
}

impl Fault {
    pub fn kind(&self) -> &'static str {
        match self {
            Fault::TruncChar { .. } => "F1-trunc-char",
            Fault::TruncLine { .. } => "F2-trunc-line",
            Fault::ReplaceChar { .. } => "F3-replace-char",
            Fault::InsertChar { ch, .. } => {
                if ch.len_utf8() > 1 {
                    "F11-insert-multibyte"
                } else {
                    "F4-insert-char"
                }
            }
            Fault::DeleteChar { .. } => "F4-delete-char",
            Fault::Splice { .. } => "F5-splice",
            Fault::DropLines { .. } => "F6-drop-lines",
            Fault::DupLines { .. } => "F7-dup-lines",
            Fault::MoveLines { .. } => "F8-move-lines",
            Fault::InsertLines { what, .. } => match what.as_str() {
                "conflict" => "F10-conflict-markers",
                "tokens" => "F12-token-soup",
                "decl" => "F15-insert-declaration",
                "wildcard" => "F20-wildcard-import",
                _ => "F9-insert-foreign-lines",
            },
            Fault::ReplaceLines { text, .. } => {
                if text.contains(" as start") {
                    "F19-start-through-import"
                } else {
                    "F12-token-soup"
                }
            }
            Fault::ReplaceRange { what, .. } => match what.as_str() {
                "literal" => "F17-swap-literal",
                "join" => "F21-join-lines",
                _ => "F16-rename-identifier",
            },
            Fault::Reflow { .. } => "F18-reflow",
            Fault::Empty { .. } => "F13-empty",
            Fault::Crlf { .. } => "F14-crlf",
            Fault::Remove { .. } => "R1-missing-file",
            Fault::IoErr { .. } => "R2-io-error",
        }
    }
    pub fn file(&self) -> &str {
        match self {
            Fault::TruncChar { file, .. }
            | Fault::TruncLine { file, .. }
            | Fault::ReplaceChar { file, .. }
            | Fault::InsertChar { file, .. }
            | Fault::DeleteChar { file, .. }
            | Fault::Splice { file, .. }
            | Fault::DropLines { file, .. }
            | Fault::DupLines { file, .. }
            | Fault::MoveLines { file, .. }
            | Fault::InsertLines { file, .. }
            | Fault::ReplaceLines { file, .. }
            | Fault::ReplaceRange { file, .. }
            | Fault::Reflow { file, .. }
            | Fault::Empty { file }
            | Fault::Crlf { file }
            | Fault::Remove { file }
            | Fault::IoErr { file } => file,
        }
    }
    pub fn to_json(&self) -> J {
        let mut o = J::obj().set("kind", J::s(self.kind())).set("file", J::s(self.file()));
        match self {
            Fault::TruncChar { at, .. } | Fault::DeleteChar { at, .. } => o.put("at", J::u(*at as u64)),
            Fault::TruncLine { line, .. } => o.put("line", J::u(*line as u64)),
            Fault::ReplaceChar { at, ch, .. } | Fault::InsertChar { at, ch, .. } => {
                o.put("at", J::u(*at as u64));
                o.put("ch", J::Str(ch.to_string()));
            }
            Fault::Splice { at, tail, .. } => {
                o.put("at", J::u(*at as u64));
                o.put("tail_len", J::u(tail.len() as u64));
            }
            Fault::DropLines { line, n, .. } => {
                o.put("line", J::u(*line as u64));
                o.put("n", J::u(*n as u64));
            }
            Fault::DupLines { line, n, to, .. } | Fault::MoveLines { line, n, to, .. } => {
                o.put("line", J::u(*line as u64));
                o.put("n", J::u(*n as u64));
                o.put("to", J::u(*to as u64));
            }
            Fault::InsertLines { at, text, .. } => {
                o.put("at", J::u(*at as u64));
                o.put("text", J::s(text));
            }
            Fault::ReplaceRange { at, len, text, .. } => {
                o.put("at", J::u(*at as u64));
                o.put("len", J::u(*len as u64));
                o.put("text", J::s(text));
            }
            Fault::Reflow { positions, indent, .. } => {
                o.put("positions", J::Arr(positions.iter().map(|p| J::u(*p as u64)).collect()));
                o.put("indent", J::u(*indent as u64));
            }
            Fault::ReplaceLines { line, n, text, .. } => {
                o.put("line", J::u(*line as u64));
                o.put("n", J::u(*n as u64));
                o.put("text", J::s(text));
            }
            _ => {}
        }
        o
    }
}

#[derive(Clone, Debug, PartialEq)]
pub enum SinkPlan {
    /// Accepts everything (what the `-o FILE` buffer is).
    Plain,
    /// The real `std::io::LineWriter` over an accepting capture: exactly what `io::stdout()` is.
    LineWriter,
    /// Error at the k-th write call (0-based) and at every later one. kind: "BrokenPipe" | "Other" | "Zero".
    FailAt { call: usize, kind: String },
    /// `ErrorKind::Interrupted` at the k-th call only (EINTR).
    InterruptAt { call: usize },
    /// The k-th call accepts only `keep` bytes (legal short write).
    ShortAt { call: usize, keep: usize },
    /// Every call accepts at most `max` bytes (a pipe with a small buffer).
    Chunked { max: usize },
}

impl SinkPlan {
    pub fn kind(&self) -> &'static str {
        match self {
            SinkPlan::Plain => "plain",
            SinkPlan::LineWriter => "W4-linewriter",
            SinkPlan::FailAt { .. } => "W1-fail",
            SinkPlan::InterruptAt { .. } => "W2-eintr",
            SinkPlan::ShortAt { .. } => "W3-short",
            SinkPlan::Chunked { .. } => "W3-chunked",
        }
    }
    /// Does this plan inject an *error* (as opposed to legal partial progress)?
    pub fn injects_error(&self) -> bool {
        matches!(self, SinkPlan::FailAt { .. })
    }
    pub fn to_json(&self) -> J {
        let o = J::obj().set("kind", J::s(self.kind()));
        match self {
            SinkPlan::FailAt { call, kind } => o.set("call", J::u(*call as u64)).set("error", J::s(kind)),
            SinkPlan::InterruptAt { call } => o.set("call", J::u(*call as u64)),
            SinkPlan::ShortAt { call, keep } => o.set("call", J::u(*call as u64)).set("keep", J::u(*keep as u64)),
            SinkPlan::Chunked { max } => o.set("max", J::u(*max as u64)),
            _ => o,
        }
    }
    pub fn from_json(j: &J) -> SinkPlan {
        match j.str_of("kind").as_str() {
            "W4-linewriter" => SinkPlan::LineWriter,
            "W1-fail" => SinkPlan::FailAt { call: j.u64_of("call") as usize, kind: j.str_of("error") },
            "W2-eintr" => SinkPlan::InterruptAt { call: j.u64_of("call") as usize },
            "W3-short" => SinkPlan::ShortAt { call: j.u64_of("call") as usize, keep: j.u64_of("keep") as usize },
            "W3-chunked" => SinkPlan::Chunked { max: j.u64_of("max") as usize },
            _ => SinkPlan::Plain,
        }
    }
}

/// What the real file system holds while errors are rendered (error rendering
/// re-opens files from disk and bypasses the reader).
#[derive(Clone, Debug, PartialEq, Default)]
pub struct RenderPlan {
    /// Write the scenario's files to the real scratch directory before rendering.
    pub materialise: bool,
    /// Per-path state at render time that differs from compile time:
    /// `None` = deleted, `Some(text)` = replaced (an editor saved in between).
    pub overrides: BTreeMap<String, Option<String>>,
}

/// A fully realised scenario: replay is `execute(&Concrete)`.
#[derive(Clone, Debug, PartialEq)]
pub struct Concrete {
    /// Paths under SIM_ROOT → contents. A path that is not present is a missing file.
    pub files: BTreeMap<String, String>,
    /// Paths for which the reader returns an I/O error.
    pub io_errors: Vec<String>,
    pub main: String,
    /// How the main file is named on the command line: "absolute" | "bare" (cwd = its directory) |
    /// "dot-slash" | "relative-dir" (cwd = the parent of its directory).
    pub main_spelling: String,
    pub no_std: bool,
    pub require: Option<String>,
    pub hash_seed: u64,
    pub sink: SinkPlan,
    pub render: RenderPlan,
}

impl Concrete {
    pub fn new(main: &str) -> Concrete {
        Concrete {
            files: BTreeMap::new(),
            io_errors: Vec::new(),
            main: main.to_string(),
            main_spelling: "absolute".to_string(),
            no_std: false,
            require: None,
            hash_seed: 0,
            sink: SinkPlan::Plain,
            render: RenderPlan::default(),
        }
    }

    pub fn to_json(&self) -> J {
        let mut files = J::obj();
        for (k, v) in &self.files {
            files.put(k, J::s(v));
        }
        let mut ov = J::obj();
        for (k, v) in &self.render.overrides {
            ov.put(k, v.as_ref().map(|s| J::s(s)).unwrap_or(J::Null));
        }
        J::obj()
            .set("files", files)
            .set("io_errors", crate::json::arr_str(self.io_errors.iter()))
            .set("main", J::s(&self.main))
            .set("main_spelling", J::s(&self.main_spelling))
            .set("no_std", J::Bool(self.no_std))
            .set("require", self.require.as_ref().map(|s| J::s(s)).unwrap_or(J::Null))
            .set("hash_seed", J::u(self.hash_seed))
            .set("sink", self.sink.to_json())
            .set(
                "render",
                J::obj().set("materialise", J::Bool(self.render.materialise)).set("overrides", ov),
            )
    }

    pub fn from_json(j: &J) -> Result<Concrete, String> {
        let mut c = Concrete::new(&j.str_of("main"));
        for (k, v) in j.get("files").and_then(|f| f.as_obj()).ok_or("no files")? {
            c.files.insert(k.clone(), v.as_str().ok_or("file not a string")?.to_string());
        }
        if let Some(a) = j.get("io_errors").and_then(|a| a.as_arr()) {
            c.io_errors = a.iter().filter_map(|x| x.as_str().map(|s| s.to_string())).collect();
        }
        if let Some(sp) = j.get("main_spelling").and_then(|x| x.as_str()) {
            c.main_spelling = sp.to_string();
        }
        c.no_std = j.bool_of("no_std");
        c.require = j.get("require").and_then(|r| r.as_str()).map(|s| s.to_string());
        c.hash_seed = j.u64_of("hash_seed");
        if let Some(s) = j.get("sink") {
            c.sink = SinkPlan::from_json(s);
        }
        if let Some(r) = j.get("render") {
            c.render.materialise = r.bool_of("materialise");
            if let Some(o) = r.get("overrides").and_then(|o| o.as_obj()) {
                for (k, v) in o {
                    c.render.overrides.insert(k.clone(), v.as_str().map(|s| s.to_string()));
                }
            }
        }
        Ok(c)
    }

    pub fn fnv(&self) -> u64 {
        crate::rng::fnv64(self.to_json().to_string().as_bytes())
    }

    pub fn total_bytes(&self) -> usize {
        self.files.values().map(|v| v.len()).sum()
    }
}

/// A scenario before realisation: base files plus an ordered fault list. Kept so
/// that minimisation can drop faults one at a time.
#[derive(Clone, Debug)]
pub struct Scenario {
    pub seed: u64,
    pub family: String,
    pub base: Concrete,
    pub faults: Vec<Fault>,
    /// Free-form generator notes (which corpus file, twist kind, ...).
    pub notes: BTreeMap<String, String>,
}

impl Scenario {
    pub fn realise(&self) -> Concrete {
        let mut c = self.base.clone();
        for f in &self.faults {
            crate::faults::apply(&mut c, f);
        }
        c
    }
    pub fn faults_json(&self) -> J {
        J::Arr(self.faults.iter().map(|f| f.to_json()).collect())
    }
}
