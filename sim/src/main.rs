//! sylt-sim: deterministic simulation with fault injection for the sylt compiler.
//! See /verif/DESIGN.md.

mod c12;
mod corpus;
mod exec;
mod faults;
mod gen;
mod json;
mod layerb;
mod minimise;
mod modgen;
mod props;
mod rng;
mod scenario;
mod supervisor;
mod worker;

use json::J;
use scenario::Concrete;
use std::time::Instant;
use supervisor::{run_batch, BatchCfg, BatchResult};

/// Rebuilds the scenario of run `index` (generate is a pure function of the seed).
pub fn worker_scenario(prop: &str, batch_seed: u64, index: u64) -> (Concrete, J, J, String) {
    let corpus = corpus::load();
    let seed = worker::run_seed(batch_seed, prop, index);
    let mut stats = props::Stats::default();
    match prop {
        "C12" => {
            let (p, c) = c12::build(seed);
            (c, p.extra_json(), J::Arr(vec![]), "generated-project".into())
        }
        _ => {
            let bias = match prop {
                "C16" => gen::Bias::MultiError,
                "C20" => gen::Bias::Sink,
                _ => gen::Bias::General,
            };
            let (sc, mut c) = worker::gen_screened(seed, &corpus, bias, &mut stats);
            if prop == "C16" {
                c.hash_seed = 0;
            }
            (c, J::obj(), sc.faults_json(), sc.family.clone())
        }
    }
}

fn env_u64(name: &str, default: u64) -> u64 {
    std::env::var(name).ok().and_then(|v| v.trim().parse().ok()).unwrap_or(default)
}

struct Plan {
    runs: u64,
    audit_runs: u64,
    hang_cpu_s: u64,
}

fn plan(prop: &str, tier: &str) -> Plan {
    let quick = tier == "quick";
    let (runs, audit_runs) = match (prop, quick) {
        ("C07", true) => (200_000, 4_000),
        ("C07", false) => (10_000_000, 100_000),
        ("C12", true) => (60_000, 4_000),
        ("C12", false) => (3_000_000, 100_000),
        ("C16", true) => (24_000, 4_000),
        ("C16", false) => (1_000_000, 200_000),
        ("C20", true) => (60_000, 4_000),
        ("C20", false) => (3_000_000, 100_000),
        _ => (10_000, 1_000),
    };
    Plan {
        runs: env_u64("SYLT_SIM_RUNS", runs),
        audit_runs: env_u64("SYLT_SIM_AUDIT_RUNS", audit_runs),
        hang_cpu_s: if quick { 10 } else { 30 },
    }
}

fn rule_text(prop: &str) -> &'static str {
    match prop {
        "C12" => "cases are generated module projects (1-6 files, folders with exports.sy, every import style, cycles, diamonds, optional negative twist) executed through the real loader against an in-memory file store; a case counts as distinct and non-trivial when its realised scenario hash is new AND it has at least two files loaded AND at least one import edge resolved (or a twist was applied)",
        "C16" => "cases are scenarios (corpus / generated project / token soup with 0-4 storage faults, biased to several independent errors) each compiled under K+2 hash seeds and twice under the reference seed; distinct and non-trivial = new realised scenario hash with at least one fault that the compiler actually read and that got past the loader phase",
        "C20" => "layer A: scenarios with sink plans (plain, real LineWriter, failing, EINTR, short, chunked) compared with a fault-free reference sink and with the --require variant; layer B: the real binary in every cell of mode x flags x target x peer x input; distinct and non-trivial = new realised scenario hash whose fault (storage, reader or sink) actually fired past the loader phase, plus every distinct layer-B (program, cell) pair",
        _ => "cases are scenarios drawn from one seed: workload family (corpus program with its directory, token soup, generated module project, long-literal program) x 0-4 storage/reader faults from a per-run enabled subset x sink plan x render-time file state x flags; distinct and non-trivial = new realised scenario hash in which at least one injected fault was actually observed by the compiler (the faulted file was read, or the sink fault fired) and the run got past the loader phase",
    }
}

fn components_json() -> J {
    J::obj()
        .set(
            "real",
            json::arr_str([
                "sylt-tokenizer, sylt-parser (incl. module loader), sylt-compiler (name resolution, dependency order, typechecker, IR, Lua emitter), sylt-common error rendering: /repo crates as path dependencies, rebuilt from the working tree",
                "sylt::compile_with_reader_to_writer (library entry) in-process; sylt main + run_file via the built binary (layer B)",
                "std::io::LineWriter (the type behind io::stdout) around a capture",
                "kernel pipes, regular files, directories for layer B and for render-time file state",
            ]),
        )
        .set(
            "stub",
            json::arr_str([
                "file store behind the reader seam: in-memory map (materialised to a scratch directory when rendering or when the binary needs real files)",
                "Lua sink: simulated Write implementations with injected faults",
                "HashMap/HashSet hashing: seeded hasher replacing RandomState under --cfg sylt_verif (real RandomState in the unseeded cross-process confirmation)",
                "lua interpreter: a stub on PATH that records stdin and emits planned stderr/exit status; it does not execute Lua (there is no Lua in the sandbox)",
            ]),
        )
}

fn finish_check(prop: &str, tier: &str, batch_seed: u64, t0: Instant, main: BatchResult, audit: Option<(u64, u64, u64)>, extra_cov: J, extra_violations: Vec<(String, J, u64)>) -> i32 {
    let vdir = supervisor::verif_dir();
    let known = supervisor::load_known();
    let mut exit = 0;
    let mut n_viol = 0;
    let mut known_hit = Vec::new();
    let mut harness_error = false;
    let _ = std::fs::create_dir_all(format!("{}/replays", vdir));

    let mut all: Vec<(String, J, u64)> = main.violations.iter().map(|(id, (doc, n))| (id.clone(), doc.clone(), *n)).collect();
    for (id, doc, n) in extra_violations {
        // one report per violation class: the same class seen by another layer (or by a pinned scenario) adds to the count
        match all.iter_mut().find(|(i, _, _)| *i == id) {
            Some((_, _, count)) => *count += n,
            None => all.push((id, doc, n)),
        }
    }
    // process-level findings of C07 carry whole programs: shrink them by re-running the real binary
    for (id, doc, _) in all.iter_mut() {
        if prop == "C07" && doc.get("layer_b").is_some() && !doc.bool_of("minimised") && doc.str_of("clause").starts_with("process-") && doc.str_of("clause") != "process-hang" {
            *doc = layerb::minimise_c07_process_doc(doc, id, 200);
        }
    }
    // crashes and hangs were attributed by the supervisor and are not minimised yet: shrink them by
    // re-running candidates in watched child processes
    for (id, doc, _) in all.iter_mut() {
        let clause = doc.str_of("clause");
        if (clause == "abort" || clause == "hang") && doc.get("layer_b").is_none() && !doc.bool_of("minimised") {
            let is_known = known.iter().any(|k| k.property == prop && k.status == "open" && k.clause == clause && doc.str_of("class").starts_with(&k.class_prefix));
            if !is_known {
                *doc = minimise_crash(doc, id, if clause == "hang" { 40 } else { 150 });
            }
        }
    }

    let mut viol_list = Vec::new();
    for (id, doc, count) in &all {
        if id.starts_with("harness/") {
            println!("HARNESS-ERROR: {} (x{}): {}", id, count, doc.str_of("detail"));
            harness_error = true;
            continue;
        }
        let clause = doc.str_of("clause");
        let class = doc.str_of("class");
        let k = known.iter().find(|k| k.property == prop && k.status == "open" && k.clause == clause && class.starts_with(&k.class_prefix));
        if let Some(k) = k {
            println!("KNOWN-FINDING: property={} {} [{} x{}]", prop, k.what, id, count);
            known_hit.push(J::obj().set("id", J::s(id)).set("count", J::u(*count)).set("what", J::s(&k.what)));
            continue;
        }
        let path = format!("{}/replays/{}-{}-{}.json", vdir, prop, supervisor::slug(id), doc.u64_of("index"));
        let _ = std::fs::write(&path, doc.to_pretty());
        // layer-B and process-level docs carry their own replay kind
        let (mut ok, mut text) = supervisor::replay_in_fresh_process(&path, id, 60);
        if !ok && doc.get("layer_b").is_none() && !matches!(clause.as_str(), "abort" | "hang") && doc.get("extra").map(|e| e.get("worker_history").is_none() && e.get("audit_history").is_none()).unwrap_or(true) {
            // maybe the violation depends on what the worker's thread (or process) compiled before this run:
            // replay again after re-running that worker's earlier runs
            let workers = env_u64("SYLT_SIM_WORKERS", 16);
            let index = doc.u64_of("index");
            let mut d2 = doc.clone();
            let mut extra = doc.get("extra").cloned().unwrap_or(J::obj());
            extra.put("worker_history", J::obj().set("start", J::u(supervisor::chunk_start(index, workers))).set("stride", J::u(workers)).set("index", J::u(index)).set("verif_seed", J::u(batch_seed)));
            d2.put("extra", extra);
            d2.put("history_dependent", J::Bool(true));
            d2.put("detail", J::s(&format!("{} [reproduces only after the earlier runs of the same worker process (from run {} on, every {}th): the outcome depends on what was compiled before]", doc.str_of("detail"), supervisor::chunk_start(index, workers), workers)));
            let _ = std::fs::write(&path, d2.to_pretty());
            let (ok2, text2) = supervisor::replay_in_fresh_process(&path, id, 600);
            if ok2 {
                ok = true;
                text = text2;
                println!("NOTE: {} reproduces only together with the worker's earlier runs (history-dependent)", id);
            } else {
                let _ = std::fs::write(&path, doc.to_pretty());
            }
        }
        if !ok {
            println!("UNSTABLE: the violation {} did not reproduce from {} in a fresh process:\n{}", id, path, text);
            harness_error = true;
        }
        println!("VIOLATION property={} replay={}", prop, path);
        println!("  {} (x{}): {}", id, count, doc.str_of("detail").lines().next().unwrap_or(""));
        n_viol += 1;
        exit = 1;
        viol_list.push(J::obj().set("id", J::s(id)).set("count", J::u(*count)).set("replay", J::s(&path)).set("reproduced_in_fresh_process", J::Bool(ok)));
    }

    // ---- evidence
    let wall = t0.elapsed().as_secs_f64();
    let st = &main.stats;
    let group = |prefix: &str| -> J {
        let mut o = J::obj();
        for (k, n) in &st.counters {
            if let Some(r) = k.strip_prefix(prefix) {
                o.put(r, J::u(*n));
            }
        }
        o
    };
    let runs = main.runs;
    let mut coverage = J::obj()
        .set("evaluations", J::u(runs))
        .set("distinct_nontrivial", J::u(st.nontrivial.len() as u64))
        .set("rule", J::s(rule_text(prop)))
        .set("samples", J::Arr(st.samples.clone()))
        .set("behaviour_signatures", J::u(st.signatures.len() as u64))
        .set("runs_per_hour", J::u(if main.wall_s > 0.0 { (runs as f64 / main.wall_s * 3600.0) as u64 } else { 0 }))
        .set("seeds_per_hour", J::u(if main.wall_s > 0.0 { (runs as f64 / main.wall_s * 3600.0) as u64 } else { 0 }))
        .set("simulated_time", J::s("n/a - the system under test reads no clock; logical steps are counted instead (events.read / events.write)"))
        .set("fault_fired", group("fault_fired."))
        .set("faults_per_scenario", group("faults_in_scenario."))
        .set("families", group("family."))
        .set("phases", group("phase."))
        .set("results", group("result."))
        .set("sinks", group("sink."))
        .set("flags", group("flag."))
        .set("probes", group("probe."))
        .set("events", group("events."))
        .set("screened_out", J::u(st.counters.get("screened_out").copied().unwrap_or(0)))
        .set("hash_maps_built_under_seed_control", J::u(st.counters.get("maps_built").copied().unwrap_or(0)))
        .set("slowest_run_us", J::u(st.slowest_us))
        .set("slowest_run_index", J::u(st.slowest_index))
        .set("worker_restarts", J::u(main.worker_restarts))
        .set("components", components_json())
        .set("known_findings_hit", J::Arr(known_hit))
        .set("violation_classes", J::Arr(viol_list))
        .set("exhaustive", J::Bool(false));
    if let Some((seeds, mismatches, missing)) = audit {
        coverage.put(
            "determinism_audit",
            J::obj()
                .set("seeds_run_twice", J::u(seeds))
                .set("worker_counts", J::s("16 and 5 processes"))
                .set("mismatches", J::u(mismatches))
                .set("missing", J::u(missing)),
        );
        if mismatches > 0 || missing > 0 {
            harness_error = true;
            println!("HARNESS-ERROR: determinism audit failed ({} mismatches, {} missing of {})", mismatches, missing, seeds);
        }
    }
    if let J::Obj(m) = extra_cov {
        for (k, v) in m {
            if k == "add_evaluations" {
                let e = coverage.get("evaluations").and_then(|x| x.as_u64()).unwrap_or(0);
                coverage.put("evaluations", J::u(e + v.as_u64().unwrap_or(0)));
            } else if k == "add_distinct" {
                let e = coverage.get("distinct_nontrivial").and_then(|x| x.as_u64()).unwrap_or(0);
                coverage.put("distinct_nontrivial", J::u(e + v.as_u64().unwrap_or(0)));
            } else {
                coverage.put(&k, v);
            }
        }
    }
    for (k, n) in &st.counters {
        if k.starts_with("c12.") || k.starts_with("c16.") || k.starts_with("c20.") || k.starts_with("harness.") {
            coverage.put(k, J::u(*n));
        }
    }
    if st.counters.get("harness.worker_failed_to_start").copied().unwrap_or(0) > 0 {
        harness_error = true;
    }
    if let Some(n) = st.counters.get("harness.c12_generator_self_check_failed") {
        println!("HARNESS-ERROR: the C12 generator failed its self-check in {} run(s)", n);
        harness_error = true;
    }

    // thorough tier: a reach probe stuck at zero means the workload no longer reaches what the check claims
    if tier == "thorough" {
        for p in required_probes(prop) {
            if st.counters.get(*p).copied().unwrap_or(0) == 0 {
                println!("HARNESS-ERROR: reach probe {} is zero", p);
                harness_error = true;
            }
        }
    }

    let ev = J::obj()
        .set("property_id", J::s(prop))
        .set("tier", J::s(tier))
        .set("seed", J::u(batch_seed))
        .set("level", J::s("exploration"))
        .set("coverage", coverage)
        .set(
            "assumptions",
            json::arr_str([
                "sampling, not enumeration: a clean batch is evidence that the property held on what was explored",
                "the hooked build replaces RandomState by a seeded hasher; iteration orders explored are not the ones SipHash would produce",
                "no Lua interpreter exists in the sandbox: nothing emitted is ever executed; the lua peer is a stub",
                "inputs bounded: files <= 48 KiB, construct nesting <= 12 (the property bounds nesting itself), <= 6 files per generated project",
            ]),
        )
        .set("wall_s", J::Num((wall * 100.0).round() / 100.0))
        .set("violations", J::Int(n_viol));
    let _ = std::fs::create_dir_all(format!("{}/evidence", vdir));
    let path = format!("{}/evidence/{}.json", vdir, prop);
    if let Err(e) = std::fs::write(&path, ev.to_pretty()) {
        eprintln!("sylt-sim: cannot write {}: {}", path, e);
        return 2;
    }
    println!(
        "{} {}: seed={} runs={} distinct_nontrivial={} signatures={} violations={} wall={:.1}s",
        prop,
        tier,
        batch_seed,
        runs,
        st.nontrivial.len(),
        st.signatures.len(),
        n_viol,
        wall
    );
    if exit == 1 {
        1
    } else if harness_error {
        2
    } else {
        0
    }
}

fn audit_pair_in_process(prop: &str, seed: u64, start: u64, stride: u64, index: u64) -> Option<(u64, u64)> {
    let exe = std::env::current_exe().ok()?;
    let out = std::process::Command::new(exe)
        .args(["audit-pair", prop, &seed.to_string(), &start.to_string(), &stride.to_string(), &index.to_string()])
        .stdin(std::process::Stdio::null())
        .output()
        .ok()?;
    let text = String::from_utf8_lossy(&out.stdout).to_string();
    let line = text.lines().find(|l| l.starts_with("PAIR "))?;
    let f: Vec<&str> = line.split_whitespace().collect();
    Some((u64::from_str_radix(f.get(1)?, 16).ok()?, u64::from_str_radix(f.get(2)?, 16).ok()?))
}

fn minimise_crash(doc: &J, id: &str, budget: usize) -> J {
    let start = match doc.get("scenario").map(Concrete::from_json) {
        Some(Ok(c)) => c,
        _ => return doc.clone(),
    };
    let dir = format!("{}/{}-mincrash", supervisor::scratch_base(), std::process::id());
    let _ = std::fs::create_dir_all(&dir);
    let path = format!("{}/candidate.json", dir);
    let want = id.to_string();
    let hang = doc.str_of("clause") == "hang";
    let test = |c: &Concrete| -> bool {
        let mut d = doc.clone();
        d.put("scenario", c.to_json());
        if std::fs::write(&path, d.to_string()).is_err() {
            return false;
        }
        // a shorter budget while shrinking (a typical run takes < 1 ms); the result is re-verified with the full one
        let (outcome, _) = supervisor::run_replay_inner(&path, if hang { 3 } else { 20 });
        let got = match outcome.as_str() {
            "hang" => "hang/cpu-budget".to_string(),
            "exit" => String::new(),
            other => format!("abort/{}", other),
        };
        got == want
    };
    if !test(&start) {
        let _ = std::fs::remove_dir_all(&dir);
        return doc.clone();
    }
    let (min, used) = minimise::minimise(&start, None, &test, budget);
    let _ = std::fs::remove_dir_all(&dir);
    let mut d = doc.clone();
    d.put("scenario", min.to_json());
    d.put("minimised", J::Bool(true));
    d.put("minimiser_executions", J::u(used as u64));
    d
}

fn required_probes(prop: &str) -> &'static [&'static str] {
    match prop {
        "C07" => &[
            "probe.two_or_more_errors",
            "probe.error_in_non_main_file",
            "probe.error_in_std_file",
            "probe.rendered_with_file_deleted",
            "probe.rendered_with_file_changed",
            "probe.missing_file_requested",
            "probe.three_or_more_files_read",
            "phase.typechecker",
            "phase.resolver",
            "phase.codegen",
        ],
        "C16" => &["probe.two_or_more_errors", "c16.multi_error_scenarios", "phase.typechecker", "phase.codegen"],
        "C20" => &[
            "probe.rejected_program_sink_untouched_checked",
            "probe.accepted_program_compared_with_reference",
            "probe.short_write_returned_by_sink",
            "probe.output_over_20k",
        ],
        "C12" => &["c12.cycle_closed", "c12.diamond", "c12.exports_folder", "c12.root_import_from_nested", "c12.twist_rejected"],
        _ => &[],
    }
}

static AUDIT_FIRST_MISMATCH: std::sync::atomic::AtomicU64 = std::sync::atomic::AtomicU64::new(u64::MAX);

fn audit_violation_doc(prop: &str, batch_seed: u64, index: u64) -> J {
    let (c, _, trace, fam) = worker_scenario(prop, batch_seed, index);
    J::obj()
        .set("property", J::s(prop))
        .set("clause", J::s("history"))
        .set("class", J::s("previous-compilations-in-process"))
        .set("detail", J::s(&format!("run {} produced a different history in a 16-worker batch than in a 5-worker batch: the result of a compilation depends on what the same thread compiled before", index)))
        .set("verif_seed", J::u(batch_seed))
        .set("index", J::u(index))
        .set("minimised", J::Bool(false))
        .set("scenario", c.to_json())
        .set("original_fault_trace", trace)
        .set("original_family", J::s(&fam))
        .set("extra", J::obj().set("audit_history", J::obj().set("verif_seed", J::u(batch_seed)).set("index", J::u(index))))
        .set("history", J::Arr(vec![]))
}

fn run_audit(prop: &str, batch_seed: u64, n: u64, hang: u64) -> (u64, u64, u64) {
    let a = run_batch(&BatchCfg { prop: prop.into(), batch_seed, start: 0, end: n, workers: 16, audit: true, hang_cpu_s: hang, tag: "auditA".into() });
    let b = run_batch(&BatchCfg { prop: prop.into(), batch_seed, start: 0, end: n, workers: 5, audit: true, hang_cpu_s: hang, tag: "auditB".into() });
    let mut mismatches = 0;
    let mut missing: u64 = 0;
    for i in 0..n {
        match (a.audit.get(&i), b.audit.get(&i)) {
            (Some(x), Some(y)) => {
                if x != y {
                    if mismatches < 5 {
                        println!("AUDIT-MISMATCH index={} 16-workers={:?} 5-workers={:?}", i, x, y);
                    }
                    if mismatches == 0 {
                        AUDIT_FIRST_MISMATCH.store(i, std::sync::atomic::Ordering::SeqCst);
                    }
                    mismatches += 1;
                }
            }
            _ => missing += 1,
        }
    }
    // a run that crashed or hung in an audit batch leaves no record; that is reported through the main batch
    let lost = a.worker_restarts + b.worker_restarts;
    (n, mismatches, missing.saturating_sub(lost))
}

fn check_main(prop: &str, tier: &str) -> i32 {
    let t0 = Instant::now();
    let batch_seed = env_u64("VERIF_SEED", 1);
    println!("VERIF_SEED={} property={} tier={}", batch_seed, prop, tier);
    let p = plan(prop, tier);
    let workers = env_u64("SYLT_SIM_WORKERS", 16);
    let main = run_batch(&BatchCfg {
        prop: prop.into(),
        batch_seed,
        start: 0,
        end: p.runs,
        workers,
        audit: false,
        hang_cpu_s: p.hang_cpu_s,
        tag: "main".into(),
    });
    let stopped_early = main.stats.counters.contains_key("harness.batch_stopped_early_after_repeated_crashes_or_hangs");
    let mut audit = if p.audit_runs > 0 && !stopped_early { Some(run_audit(prop, batch_seed, p.audit_runs, p.hang_cpu_s)) } else { None };
    let mut extra_cov = J::obj();
    let mut extra_viol = Vec::new();
    let mut audit_viol: Vec<(String, J, u64)> = Vec::new();
    // pinned scenarios: the minimised inputs of every finding made so far, replayed on every run, so that a
    // defect that comes back is reported deterministically and not only when the sampling happens to hit it
    {
        let dir = format!("{}/pinned", supervisor::verif_dir());
        let mut names: Vec<String> = std::fs::read_dir(&dir).map(|rd| rd.flatten().map(|e| e.file_name().to_string_lossy().to_string()).collect()).unwrap_or_default();
        names.sort();
        let mut ran = 0u64;
        let mut hit = Vec::new();
        for n in names {
            if !n.starts_with(prop) || !n.ends_with(".json") {
                continue;
            }
            let path = format!("{}/{}", dir, n);
            let doc = match std::fs::read_to_string(&path).ok().and_then(|t| J::parse(&t).ok()) {
                Some(d) => d,
                None => continue,
            };
            ran += 1;
            let want = if doc.str_of("clause") == "*" { "*".to_string() } else { format!("{}/{}", doc.str_of("clause"), doc.str_of("class")) };
            let (reproduced, text) = supervisor::replay_in_fresh_process(&path, &want, 60);
            if reproduced {
                let actual = text.lines().find(|l| l.starts_with("REPRODUCED ")).map(|l| l[11..].trim().to_string()).unwrap_or(want.clone());
                let mut d = doc.clone();
                let mut parts = actual.splitn(2, '/');
                d.put("clause", J::s(parts.next().unwrap_or("")));
                d.put("class", J::s(parts.next().unwrap_or("")));
                d.put("detail", J::s(&format!("pinned scenario {}: {}", n, text.lines().skip_while(|l| !l.starts_with("REPRODUCED ")).nth(1).unwrap_or(""))));
                d.put("index", J::u(0));
                hit.push(J::s(&format!("{} -> {}", n, actual)));
                audit_viol.push((actual, d, 1));
            }
        }
        extra_cov.put("pinned_scenarios", J::obj().set("replayed", J::u(ran)).set("showing_a_violation", J::Arr(hit)));
    }
    if prop == "C16" {
        // for C16 a history-dependent result is not a harness problem: it is the property failing
        if let Some((n, mism, missing)) = audit {
            if mism > 0 {
                let first = AUDIT_FIRST_MISMATCH.load(std::sync::atomic::Ordering::SeqCst);
                audit_viol.push(("history/previous-compilations-in-process".into(), audit_violation_doc(prop, batch_seed, first), mism));
                audit = Some((n, 0, missing));
                extra_cov.put("determinism_audit_mismatches_reported_as_violation", J::u(mism));
            }
        }
    }
    match prop {
        "C20" => {
            let r = layerb::run_c20(tier, batch_seed);
            if let (J::Obj(a), J::Obj(b)) = (&mut extra_cov, r.coverage) {
                a.extend(b);
            }
            extra_viol = r.violations;
        }
        "C12" => {
            let r = layerb::run_c12_processes(tier, batch_seed);
            if let (J::Obj(a), J::Obj(b)) = (&mut extra_cov, r.coverage) {
                a.extend(b);
            }
            extra_viol = r.violations;
        }
        "C07" => {
            let r = layerb::run_c07_processes(tier, batch_seed);
            if let (J::Obj(a), J::Obj(b)) = (&mut extra_cov, r.coverage) {
                a.extend(b);
            }
            extra_viol = r.violations;
        }
        "C16" => {
            let r = layerb::run_c16_processes(tier, batch_seed);
            if let (J::Obj(a), J::Obj(b)) = (&mut extra_cov, r.coverage) {
                a.extend(b);
            }
            extra_viol = r.violations;
        }
        _ => {}
    }
    extra_viol.extend(audit_viol);
    finish_check(prop, tier, batch_seed, t0, main, audit, extra_cov, extra_viol)
}

fn replay_main(path: &str) -> i32 {
    let text = match std::fs::read_to_string(path) {
        Ok(t) => t,
        Err(e) => {
            eprintln!("cannot read {}: {}", path, e);
            return 2;
        }
    };
    let doc = match J::parse(&text) {
        Ok(d) => d,
        Err(e) => {
            eprintln!("cannot parse {}: {}", path, e);
            return 2;
        }
    };
    let prop = doc.str_of("property");
    let id = if doc.str_of("clause") == "*" { "*".to_string() } else { format!("{}/{}", doc.str_of("clause"), doc.str_of("class")) };
    println!("replaying {} for {} expecting {}", path, prop, id);
    if doc.get("layer_b").is_some() {
        return layerb::replay(&doc, &id);
    }
    let clause0 = doc.str_of("clause");
    if (clause0 == "abort" || clause0 == "hang") && std::env::var("SYLT_SIM_REPLAY_INNER").is_err() {
        // the process dying or spinning IS the violation: watch it from outside
        let (outcome, detail) = supervisor::run_replay_inner(path, 20);
        let got = match outcome.as_str() {
            "hang" => "hang/cpu-budget".to_string(),
            "exit" => String::new(),
            other => format!("abort/{}", other),
        };
        if got == id {
            println!("REPRODUCED {}", id);
            println!("{}", detail);
            println!("VIOLATION property={} replay={}", prop, path);
            return 1;
        }
        println!("NOT-REPRODUCED {} (the inner run ended with: {} {})", id, outcome, detail);
        return 0;
    }
    let c = match doc.get("scenario").map(Concrete::from_json) {
        Some(Ok(c)) => c,
        _ => {
            eprintln!("no scenario in {}", path);
            return 2;
        }
    };
    let extra = doc.get("extra").cloned().unwrap_or(J::obj());
    let scratch = format!("{}/{}-replay", supervisor::scratch_base(), std::process::id());
    let _ = std::fs::create_dir_all(&scratch);
    let prop2 = prop.clone();
    let id2 = id.clone();
    // run in a big-stack thread like the workers do; an abort or a hang reproduces as the process dying or spinning
    let h = std::thread::Builder::new().stack_size(256 << 20).spawn(move || {
        exec::install_panic_hook();
        exec::set_root(&scratch);
        if let Some(a) = extra.get("audit_history") {
            // the same run after two different worker histories (16 and 5 workers)
            let (seed, x) = (a.u64_of("verif_seed"), a.u64_of("index"));
            // each history runs in its own process: state may be process-wide, not only per thread
            let a16 = audit_pair_in_process(&prop2, seed, supervisor::chunk_start(x, 16), 16, x);
            let a5 = audit_pair_in_process(&prop2, seed, supervisor::chunk_start(x, 5), 5, x);
            exec::clean_root(&scratch);
            let _ = std::fs::remove_dir(&scratch);
            return if a16 != a5 {
                Some(props::Violation { prop: prop2.clone(), clause: "history".into(), class: "previous-compilations-in-process".into(), detail: format!("run {} gives history {:x?} after the compilations a 16-worker batch ran before it in the same thread, and {:x?} after those of a 5-worker batch", x, a16, a5) })
            } else {
                None
            };
        }
        if let Some(hst) = extra.get("worker_history") {
            worker::rerun_worker_history(&prop2, hst.u64_of("verif_seed"), hst.u64_of("start"), hst.u64_of("stride"), hst.u64_of("index"), false);
        }
        let r = worker::reproduces(&prop2, &c, &extra, &props::preamble_text(), &id2);
        exec::clean_root(&scratch);
        let _ = std::fs::remove_dir(&scratch);
        r
    });
    let clause = doc.str_of("clause");
    match h.unwrap().join() {
        Ok(Some(v)) => {
            println!("REPRODUCED {}", v.id());
            println!("{}", v.detail);
            println!("VIOLATION property={} replay={}", prop, path);
            1
        }
        Ok(None) => {
            if clause == "hang" || clause == "abort" {
                println!("NOT-REPRODUCED {} (the run completed)", id);
            } else {
                println!("NOT-REPRODUCED {}", id);
            }
            0
        }
        Err(_) => {
            println!("REPRODUCED {}", id);
            1
        }
    }
}

fn main() {
    let args: Vec<String> = std::env::args().collect();
    let argv0 = std::path::Path::new(&args[0]).file_name().map(|s| s.to_string_lossy().to_string()).unwrap_or_default();
    if argv0 == "lua" {
        std::process::exit(layerb::lua_stub_main());
    }
    let cmd = args.get(1).map(|s| s.as_str()).unwrap_or("");
    let code = match cmd {
        "worker" => {
            let prop = args[2].clone();
            let batch_seed: u64 = args[3].parse().unwrap();
            let start: u64 = args[4].parse().unwrap();
            let end: u64 = args[5].parse().unwrap();
            let stride: u64 = args[6].parse().unwrap();
            let audit = args[7] == "audit";
            let scratch = args[8].clone();
            let h = std::thread::Builder::new()
                .stack_size(256 << 20)
                .spawn(move || worker::worker_main(&prop, batch_seed, start, end, stride, audit, &scratch))
                .unwrap();
            match h.join() {
                Ok(()) => 0,
                Err(_) => 3,
            }
        }
        "check" => check_main(&args[2], args.get(3).map(|s| s.as_str()).unwrap_or("quick")),
        "replay" => replay_main(&args[2]),
        "gen" => {
            let (c, extra, trace, fam) = worker_scenario(&args[2], env_u64("VERIF_SEED", 1), args[3].parse().unwrap());
            println!("{}", J::obj().set("family", J::s(&fam)).set("scenario", c.to_json()).set("extra", extra).set("faults", trace).to_pretty());
            0
        }
        "audit-pair" => {
            // (scenario fnv, history fnv) of run <index> after the runs a worker with <start>/<stride> made before it
            let prop = args[2].clone();
            let seed: u64 = args[3].parse().unwrap();
            let start: u64 = args[4].parse().unwrap();
            let stride: u64 = args[5].parse().unwrap();
            let index: u64 = args[6].parse().unwrap();
            let h = std::thread::Builder::new()
                .stack_size(256 << 20)
                .spawn(move || {
                    exec::install_panic_hook();
                    let scratch = format!("{}/{}-auditpair", supervisor::scratch_base(), std::process::id());
                    let _ = std::fs::create_dir_all(&scratch);
                    exec::set_root(&scratch);
                    let r = worker::audit_pair_after_history(&prop, seed, start, stride, index);
                    exec::clean_root(&scratch);
                    let _ = std::fs::remove_dir(&scratch);
                    r
                })
                .unwrap();
            match h.join() {
                Ok((s, hh)) => {
                    println!("PAIR {:x} {:x}", s, hh);
                    0
                }
                Err(_) => 3,
            }
        }
        "corpus-obs" => {
            // one line per corpus main: verdict and the located errors (used to compare two trees)
            exec::install_panic_hook();
            let scratch = format!("{}/{}-obs", supervisor::scratch_base(), std::process::id());
            let _ = std::fs::create_dir_all(&scratch);
            exec::set_root(&scratch);
            let c = corpus::load();
            for main in &c.mains {
                let mut cc = Concrete::new(main);
                cc.files = c.project_of(main);
                let out = exec::execute(&cc);
                let desc = match &out.result {
                    exec::ResultObs::Ok => format!("OK {}", out.sink_bytes.len()),
                    exec::ResultObs::Panicked => format!("PANIC {:?}", out.panic.as_ref().map(|p| p.key())),
                    exec::ResultObs::Err(es) => es.iter().map(|e| format!("{}@{}:{}", e.variant, e.file.rsplit('/').next().unwrap_or(""), e.line)).collect::<Vec<_>>().join(" "),
                };
                println!("{} => {}", main, desc);
            }
            let _ = std::fs::remove_dir_all(&scratch);
            0
        }
        "depths" => {
            let c = corpus::load();
            for (k, v) in &c.files {
                println!("{:3} {:6} {}", gen::nesting_depth(v), v.len(), k);
            }
            0
        }
        _ => {
            eprintln!("usage: sylt-sim check <C07|C12|C16|C20> <quick|thorough> | replay <file> | gen <prop> <index> | depths");
            2
        }
    };
    std::process::exit(code);
}
