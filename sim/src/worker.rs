//! Worker process: runs a strided range of run indices, each a complete
//! generate → execute → oracle cycle, and reports over stdout.
//!
//! Protocol (one line each):  B <index> | D <index> <scenario-fnv> <history-fnv> |
//! V <json violation+replay doc> | R <violation id> | S <json stats delta, "final" on the last>

use crate::corpus::Corpus;
use crate::exec::{self, execute, Outcome, ResultObs};
use crate::gen::{self, Bias};
use crate::json::J;
use crate::minimise::minimise;
use crate::props::{self, Stats, Violation};
use crate::rng::{splitmix64, tag, Rng};
use crate::scenario::{Concrete, Scenario};
use std::collections::BTreeSet;
use std::io::Write;
use std::time::Instant;

pub struct Env {
    pub corpus: Corpus,
    pub preamble: String,
    pub prop: String,
    pub batch_seed: u64,
    pub audit: bool,
    pub minimise_budget: usize,
}

pub fn run_seed(batch_seed: u64, prop: &str, index: u64) -> u64 {
    splitmix64(batch_seed ^ tag(prop) ^ splitmix64(index))
}

/// Draws scenarios until one passes the screen (the property's own nesting bound, harness size bound).
pub fn gen_screened(seed: u64, corpus: &Corpus, bias: Bias, stats: &mut Stats) -> (Scenario, Concrete) {
    let mut s = seed;
    for _ in 0..16 {
        let sc = gen::generate(s, corpus, bias);
        let c = sc.realise();
        if !gen::screened_out(&c) {
            return (sc, c);
        }
        stats.inc("screened_out");
        s = splitmix64(s ^ 0x5c4ee7);
    }
    // give up on faults: the fault-free base always passes the screen for corpus-sized inputs
    let mut sc = gen::generate(s, corpus, bias);
    sc.faults.clear();
    let c = sc.realise();
    (sc, c)
}

pub struct Found {
    pub violation: Violation,
    pub concrete: Concrete,
    pub scenario: Option<Scenario>,
    pub extra: J,
    pub outcome_events: J,
}

fn fault_kinds_fired(sc: &Scenario, out: &Outcome) -> Vec<&'static str> {
    // a storage/reader fault "fired" if the compiler actually asked for the file it sits in
    let mut v = Vec::new();
    for f in &sc.faults {
        if out.reads.iter().any(|(p, _)| p == f.file()) {
            v.push(f.kind());
        }
    }
    v
}

fn record_common(stats: &mut Stats, sc: &Scenario, c: &Concrete, out: &Outcome) {
    stats.inc("runs");
    stats.inc(&format!("family.{}", sc.family));
    stats.inc(&format!("phase.{}", out.phase()));
    stats.inc(&format!("faults_in_scenario.{}", sc.faults.len()));
    let fired = fault_kinds_fired(sc, out);
    for k in &fired {
        stats.inc(&format!("fault_fired.{}", k));
    }
    if out.sink_fault_fired {
        stats.inc(&format!("fault_fired.{}", c.sink.kind()));
    }
    stats.inc(&format!("sink.{}", c.sink.kind()));
    if c.no_std {
        stats.inc("flag.no_std");
    }
    if c.require.is_some() {
        stats.inc("flag.require");
    }
    stats.add("events.read", out.reads.len() as u64);
    stats.add("events.write", out.writes.len() as u64);
    stats.add("maps_built", out.maps_built);
    match &out.result {
        ResultObs::Ok => stats.inc("result.ok"),
        ResultObs::Panicked => stats.inc("result.panic"),
        ResultObs::Err(es) => {
            stats.inc("result.err");
            if es.len() >= 2 {
                stats.inc("probe.two_or_more_errors");
            }
            if es.iter().any(|e| !e.file.is_empty() && e.file != c.main && !e.file.starts_with("lib:")) {
                stats.inc("probe.error_in_non_main_file");
            }
            if es.iter().any(|e| e.file.starts_with("lib:")) {
                stats.inc("probe.error_in_std_file");
            }
            if c.render.materialise {
                stats.inc("probe.rendered_against_real_files");
                if c.render.overrides.values().any(|v| v.is_none()) {
                    stats.inc("probe.rendered_with_file_deleted");
                }
                if c.render.overrides.values().any(|v| v.is_some()) {
                    stats.inc("probe.rendered_with_file_changed");
                }
            }
        }
    }
    if out.reads.len() >= 3 {
        stats.inc("probe.three_or_more_files_read");
    }
    if out.reads.iter().any(|(_, r)| *r == exec::ReadRes::NotFound) {
        stats.inc("probe.missing_file_requested");
    }
    let sig = props::signature(out, &fired, c.sink.kind());
    stats.signatures.insert(sig);
    let nontrivial = (!fired.is_empty() || out.sink_fault_fired) && out.phase() != "loader";
    if nontrivial {
        stats.nontrivial.insert(c.fnv());
    }
}

fn sample_json(index: u64, seed: u64, sc: &Scenario, c: &Concrete, out: &Outcome) -> J {
    let mut files = J::obj();
    for (k, t) in &c.files {
        let shown: String = if t.len() > 1500 { format!("{}… ({} bytes)", t.chars().take(1500).collect::<String>(), t.len()) } else { t.clone() };
        files.put(k, J::s(&shown));
    }
    J::obj()
        .set("index", J::u(index))
        .set("run_seed", J::u(seed))
        .set("family", J::s(&sc.family))
        .set("main", J::s(&c.main))
        .set("files", files)
        .set("faults", sc.faults_json())
        .set("sink", c.sink.to_json())
        .set("no_std", J::Bool(c.no_std))
        .set("require", c.require.as_ref().map(|s| J::s(s)).unwrap_or(J::Null))
        .set("hash_seed", J::u(c.hash_seed))
        .set("history", out.events_json(6))
}

fn maybe_sample(stats: &mut Stats, index: u64, seed: u64, sc: &Scenario, c: &Concrete, out: &Outcome) {
    // one fault-free, one multi-fault, one reaching codegen — small scenarios only
    if c.total_bytes() > 1200 || c.files.len() > 3 {
        return;
    }
    let want = match (sc.faults.len(), out.phase()) {
        (0, _) => "sampled.fault_free",
        (n, _) if n >= 2 => "sampled.multi_fault",
        (_, "codegen") => "sampled.codegen",
        _ => return,
    };
    if stats.counters.get(want).copied().unwrap_or(0) == 0 {
        stats.inc(want);
        stats.samples.push(sample_json(index, seed, sc, c, out));
    }
}

/// One complete run of property `prop` at `index`. Returns what it found.
pub fn run_one(env: &Env, index: u64, stats: &mut Stats) -> (Vec<Found>, u64, u64) {
    let seed = run_seed(env.batch_seed, &env.prop, index);
    match env.prop.as_str() {
        "C07" => {
            let (sc, c) = gen_screened(seed, &env.corpus, Bias::General, stats);
            let out = execute(&c);
            record_common(stats, &sc, &c, &out);
            maybe_sample(stats, index, seed, &sc, &c, &out);
            let found = props::check_c07(&out)
                .into_iter()
                .map(|v| Found { violation: v, concrete: c.clone(), scenario: Some(sc.clone()), extra: J::obj(), outcome_events: out.events_json(8) })
                .collect();
            (found, c.fnv(), out.history_fnv())
        }
        "C16" => {
            let (sc, mut c) = gen_screened(seed, &env.corpus, Bias::MultiError, stats);
            c.hash_seed = 0;
            let k = if env.audit { 2 } else { std::env::var("SYLT_SIM_HASH_SEEDS").ok().and_then(|v| v.parse().ok()).unwrap_or(8) };
            let mut hr = Rng::sub(seed, "hash-variations");
            let mut seeds: Vec<u64> = vec![1, 2];
            while seeds.len() < k {
                seeds.push(hr.next());
            }
            seeds.truncate(k);
            let (vs, out, distinct) = props::check_c16(&c, &seeds);
            record_common(stats, &sc, &c, &out);
            maybe_sample(stats, index, seed, &sc, &c, &out);
            stats.add("c16.compilations", seeds.len() as u64 + 4 + props::canaries().len() as u64 + if matches!(out.result, ResultObs::Ok) { 3 } else { 0 });
            if distinct > 1 {
                stats.inc("c16.scenarios_with_divergence");
            }
            if let ResultObs::Err(es) = &out.result {
                if es.len() >= 2 {
                    stats.inc("c16.multi_error_scenarios");
                }
            }
            let extra = J::obj().set("hash_seeds", J::Arr(seeds.iter().map(|s| J::u(*s)).collect()));
            let found = vs
                .into_iter()
                .map(|v| Found { violation: v, concrete: c.clone(), scenario: Some(sc.clone()), extra: extra.clone(), outcome_events: out.events_json(8) })
                .collect();
            (found, c.fnv(), out.history_fnv())
        }
        "C20" => {
            let (sc, c) = gen_screened(seed, &env.corpus, Bias::Sink, stats);
            // generated projects use nothing from the standard library: --no-std must change nothing for them
            let std_free = sc.family == "generated-project" && sc.faults.is_empty();
            // the main file as it was before the storage faults (only when they changed it)
            let base_main: Option<String> = sc.base.files.get(&c.main).filter(|t| c.files.get(&c.main).map(|now| now != *t).unwrap_or(false)).cloned();
            let la = props::check_c20a(&c, &env.preamble, std_free, base_main.as_deref());
            if std_free {
                stats.inc("probe.std_free_program_compared_with_and_without_no_std");
            }
            record_common(stats, &sc, &c, &la.main);
            maybe_sample(stats, index, seed, &sc, &c, &la.main);
            if matches!(la.main.result, ResultObs::Err(_)) {
                stats.inc("probe.rejected_program_sink_untouched_checked");
            }
            if matches!(la.main.result, ResultObs::Ok) {
                stats.inc("probe.accepted_program_compared_with_reference");
                if la.main.writes.iter().any(|w| matches!(w.res, Ok(n) if n < w.len)) {
                    stats.inc("probe.short_write_returned_by_sink");
                }
                if la.reference.sink_bytes.len() > 20_000 {
                    stats.inc("probe.output_over_20k");
                }
            }
            let found = la
                .violations
                .into_iter()
                .map(|v| Found { violation: v, concrete: c.clone(), scenario: Some(sc.clone()), extra: match &base_main {
                    Some(b) => J::obj().set("std_free", J::Bool(std_free)).set("base_main", J::s(b)),
                    None => J::obj().set("std_free", J::Bool(std_free)),
                }, outcome_events: la.main.events_json(8) })
                .collect();
            (found, c.fnv(), la.main.history_fnv())
        }
        "C12" => crate::c12::run_one(env, index, seed, stats),
        other => panic!("unknown property {}", other),
    }
}

/// Re-evaluate a concrete scenario for `prop` and say whether a violation with the given id shows.
pub fn reproduces(prop: &str, c: &Concrete, extra: &J, preamble: &str, id: &str) -> Option<Violation> {
    let vs: Vec<Violation> = match prop {
        "C07" => props::check_c07(&execute(c)),
        "C16" => {
            let seeds: Vec<u64> = extra
                .get("hash_seeds")
                .and_then(|a| a.as_arr())
                .map(|a| a.iter().filter_map(|x| x.as_u64()).collect())
                .unwrap_or_else(|| vec![1, 2]);
            props::check_c16(c, &seeds).0
        }
        "C20" => {
            let b = extra.get("base_main").and_then(|x| x.as_str()).map(|s| s.to_string());
            props::check_c20a(c, preamble, extra.bool_of("std_free"), b.as_deref()).violations
        }
        "C12" => crate::c12::reevaluate(c, extra),
        _ => Vec::new(),
    };
    // "*" = any violation at all (pinned regression scenarios must be entirely clean)
    vs.into_iter().find(|v| id == "*" || v.id() == id)
}

pub fn replay_doc(env_prop: &str, batch_seed: u64, index: u64, seed: u64, f: &Found, minimised: Option<(&Concrete, usize)>) -> J {
    let c = minimised.map(|m| m.0).unwrap_or(&f.concrete);
    J::obj()
        .set("property", J::s(env_prop))
        .set("clause", J::s(&f.violation.clause))
        .set("class", J::s(&f.violation.class))
        .set("detail", J::s(&f.violation.detail))
        .set("verif_seed", J::u(batch_seed))
        .set("index", J::u(index))
        .set("run_seed", J::u(seed))
        .set("minimised", J::Bool(minimised.is_some()))
        .set("minimiser_executions", J::u(minimised.map(|m| m.1 as u64).unwrap_or(0)))
        .set("scenario", c.to_json())
        .set("original_fault_trace", f.scenario.as_ref().map(|s| s.faults_json()).unwrap_or(J::Null))
        .set("original_family", f.scenario.as_ref().map(|s| J::s(&s.family)).unwrap_or(J::Null))
        .set("extra", f.extra.clone())
        .set("history", f.outcome_events.clone())
}

pub fn worker_main(prop: &str, batch_seed: u64, start: u64, end: u64, stride: u64, audit: bool, scratch: &str) {
    exec::install_panic_hook();
    std::fs::create_dir_all(scratch).expect("scratch dir");
    exec::set_root(scratch);
    let env = Env {
        corpus: crate::corpus::load(),
        preamble: props::preamble_text(),
        prop: prop.to_string(),
        batch_seed,
        audit,
        minimise_budget: if prop == "C16" { 300 } else { 1200 },
    };
    let stdout = std::io::stdout();
    let mut out = std::io::BufWriter::with_capacity(1 << 12, stdout.lock());
    let mut stats = Stats::default();
    let mut seen: BTreeSet<String> = BTreeSet::new();
    warm_up(batch_seed, prop, start);
    let mut index = start;
    let mut runs_since_flush = 0u64;
    while index < end {
        // the begin marker must be out before the run starts: it is how a crash or hang is attributed
        let _ = writeln!(out, "B {}", index);
        let _ = out.flush();
        let t0 = Instant::now();
        let (found, sfnv, hfnv) = run_one(&env, index, &mut stats);
        let us = t0.elapsed().as_micros() as u64;
        if us > stats.slowest_us {
            stats.slowest_us = us;
            stats.slowest_index = index;
        }
        if audit {
            let _ = writeln!(out, "D {} {:x} {:x}", index, sfnv, hfnv);
        }
        for f in found {
            let id = f.violation.id();
            if !seen.insert(id.clone()) {
                let _ = writeln!(out, "R {}", id);
                continue;
            }
            let seed = run_seed(batch_seed, prop, index);
            let mut f = f;
            let history_class = f.violation.class == "worker-thread-history";
            if history_class {
                // the state that matters was left by earlier runs of this worker thread: record which
                f.extra.put("worker_history", J::obj().set("start", J::u(start)).set("stride", J::u(stride)).set("index", J::u(index)).set("verif_seed", J::u(batch_seed)));
            }
            // report first, shrink afterwards: if shrinking kills this process the finding is not lost,
            // and the supervisor does not mistake the time spent shrinking for a hanging run
            let doc0 = replay_doc(prop, batch_seed, index, seed, &f, None);
            let _ = writeln!(out, "V {}", doc0.to_string());
            let _ = writeln!(out, "M {}", index);
            let _ = out.flush();
            let (min, used) = if prop == "C12" || history_class {
                (f.concrete.clone(), 0)
            } else {
                let test = |c: &Concrete| reproduces(prop, c, &f.extra, &env.preamble, &id).is_some();
                minimise(&f.concrete, f.scenario.as_ref(), &test, env.minimise_budget)
            };
            let mut f2 = Found { violation: f.violation.clone(), concrete: f.concrete.clone(), scenario: f.scenario.clone(), extra: f.extra.clone(), outcome_events: f.outcome_events.clone() };
            if !history_class {
                if let Some(vmin) = reproduces(prop, &min, &f.extra, &env.preamble, &id) {
                    f2.violation.detail = vmin.detail;
                }
            }
            let doc = replay_doc(prop, batch_seed, index, seed, &f2, if history_class { None } else { Some((&min, used)) });
            let _ = writeln!(out, "V {}", doc.to_string());
            let _ = writeln!(out, "B {}", index);
            let _ = out.flush();
        }
        index += stride;
        runs_since_flush += 1;
        if runs_since_flush >= 250 {
            // periodic delta, so that a later crash of this process loses little
            let _ = writeln!(out, "S {}", stats.to_json().to_string());
            stats = Stats::default();
            runs_since_flush = 0;
        }
    }
    let _ = writeln!(out, "S {}", stats.to_json().set("final", J::Bool(true)).to_string());
    let _ = out.flush();
    exec::clean_root(scratch);
    let _ = std::fs::remove_dir(scratch);
}

/// The first thing a worker process compiles: nothing, a one-file program, or a project with many files -
/// a pure function of (VERIF_SEED, property, first run index), so that replay can repeat it.
pub fn warm_up(batch_seed: u64, prop: &str, start: u64) {
    let mut r = Rng::new(splitmix64(batch_seed ^ tag(prop) ^ tag("warm-up") ^ splitmix64(start)));
    let root = crate::scenario::SIM_ROOT;
    match r.below(4) {
        0 => {}
        1 => {
            let mut c = Concrete::new(&format!("{}/warm/main.sy", root));
            c.files.insert(c.main.clone(), "start :: fn do\n    1 <=> 1\nend\n".into());
            let _ = execute(&c);
        }
        _ => {
            // a wide project: 8-16 files, so that every file id a later, smaller program can hold is "used up"
            let n = r.range(8, 16);
            let mut c = Concrete::new(&format!("{}/warm/main.sy", root));
            let mut main = String::new();
            for k in 0..n {
                main.push_str(&format!("use w{}\n", k));
                c.files.insert(format!("{}/warm/w{}.sy", root, k), format!("v :: {}\nf :: fn -> int do\n    ret v\nend\n", k));
            }
            main.push_str("start :: fn do\n");
            for k in 0..n {
                main.push_str(&format!("    w{}.f() <=> {}\n", k, k));
            }
            main.push_str("end\n");
            c.files.insert(c.main.clone(), main);
            c.no_std = r.chance(1, 4);
            let _ = execute(&c);
        }
    }
}

/// Re-runs, in the current thread, everything a worker did before `index` (replay of history-dependent classes).
pub fn rerun_worker_history(prop: &str, batch_seed: u64, start: u64, stride: u64, index: u64, audit: bool) {
    warm_up(batch_seed, prop, start);
    let env = Env {
        corpus: crate::corpus::load(),
        preamble: props::preamble_text(),
        prop: prop.to_string(),
        batch_seed,
        audit,
        minimise_budget: 0,
    };
    let mut stats = Stats::default();
    let mut i = start;
    while i < index {
        let _ = run_one(&env, i, &mut stats);
        i += stride.max(1);
    }
}

/// (scenario fnv, history fnv) of run `index` after the history a worker with this start/stride has.
pub fn audit_pair_after_history(prop: &str, batch_seed: u64, start: u64, stride: u64, index: u64) -> (u64, u64) {
    rerun_worker_history(prop, batch_seed, start, stride, index, true);
    let env = Env {
        corpus: crate::corpus::load(),
        preamble: props::preamble_text(),
        prop: prop.to_string(),
        batch_seed,
        audit: true,
        minimise_budget: 0,
    };
    let mut stats = Stats::default();
    let (_, s, h) = run_one(&env, index, &mut stats);
    (s, h)
}
