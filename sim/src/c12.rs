//! C12: the module loader and namespace machinery against the reference model of
//! modgen.rs. The reader seam is the only way the compiler learns what files exist,
//! so its call history is a complete record of what was loaded.

use crate::exec::{execute, Outcome, ReadRes, ResultObs};
use crate::json::J;
use crate::modgen::{self, Project};
use crate::props::{Stats, Violation};
use crate::rng::Rng;
use crate::scenario::Concrete;
use crate::worker::{Env, Found};
use std::collections::BTreeSet;

fn v(clause: &str, class: &str, detail: String) -> Violation {
    Violation { prop: "C12".into(), clause: clause.into(), class: class.into(), detail }
}

fn first_error(out: &Outcome) -> String {
    match &out.result {
        ResultObs::Err(es) => es
            .first()
            .map(|e| format!("{} {}:{} {}", e.variant, e.file, e.line, e.message.lines().next().unwrap_or("")))
            .unwrap_or_default(),
        ResultObs::Panicked => format!("panic {:?}", out.panic),
        ResultObs::Ok => "ok".into(),
    }
}

fn error_class(out: &Outcome) -> String {
    match &out.result {
        ResultObs::Err(es) => es
            .first()
            .map(|e| format!("{}:{}", e.variant, crate::exec::strip_variable_parts(&e.message)))
            .unwrap_or_default(),
        ResultObs::Panicked => "panic".into(),
        ResultObs::Ok => "ok".into(),
    }
}

pub struct Expect {
    pub expect_ok: bool,
    pub twist: Option<String>,
    pub expect_reads: BTreeSet<String>,
    pub removed: Vec<String>,
    pub flattened: Option<String>,
    pub main_marker: Option<String>,
}

impl Expect {
    pub fn from_json(j: &J) -> Expect {
        let strs = |k: &str| -> Vec<String> {
            j.get(k).and_then(|a| a.as_arr()).map(|a| a.iter().filter_map(|x| x.as_str().map(|s| s.to_string())).collect()).unwrap_or_default()
        };
        Expect {
            expect_ok: j.bool_of("expect_ok"),
            twist: j.get("twist").and_then(|t| t.as_str()).map(|s| s.to_string()),
            expect_reads: strs("expect_reads").into_iter().collect(),
            removed: strs("removed"),
            flattened: j.get("flattened").and_then(|t| t.as_str()).map(|s| s.to_string()),
            main_marker: j.get("main_marker").and_then(|t| t.as_str()).map(|s| s.to_string()),
        }
    }
}

pub fn check(c: &Concrete, ex: &Expect) -> (Vec<Violation>, Outcome, Option<Outcome>) {
    let out = execute(c);
    let mut vs = Vec::new();

    // 7. termination / no crash
    if let Some(p) = &out.panic {
        vs.push(v("panic", &p.key(), format!("loading the project panicked at {}:{}: {}", p.file, p.line, p.msg)));
        return (vs, out, None);
    }
    // 1. load-once
    let mut seen = BTreeSet::new();
    for (p, _) in &out.reads {
        if !seen.insert(p.clone()) {
            vs.push(v("loaded-twice", "-", format!("{} was requested from the reader twice", p)));
            break;
        }
    }
    // 2./3. exactly the import closure is loaded, through the documented path mapping
    let got: BTreeSet<String> = out.reads.iter().map(|(p, _)| p.clone()).collect();
    if got != ex.expect_reads {
        let missing: Vec<&String> = ex.expect_reads.difference(&got).collect();
        let extra: Vec<&String> = got.difference(&ex.expect_reads).collect();
        let class = if !extra.is_empty() && !missing.is_empty() {
            "wrong-path"
        } else if !extra.is_empty() {
            "extra-file"
        } else {
            "file-not-loaded"
        };
        vs.push(v(
            "load-set",
            class,
            format!("the documented import closure is {:?}; the loader requested {:?} (not requested: {:?}; unexpected: {:?})", ex.expect_reads, got, missing, extra),
        ));
    }
    // 4./6. positive projects are accepted: every name binds to the module the documentation says
    if ex.expect_ok && !matches!(out.result, ResultObs::Ok) {
        vs.push(v(
            "valid-project-rejected",
            &error_class(&out),
            format!("a project that uses only documented import forms and imported names was rejected: {}", first_error(&out)),
        ));
    }
    // 5. negative twists are rejected
    if !ex.expect_ok && matches!(out.result, ResultObs::Ok) {
        vs.push(v(
            "invalid-reference-accepted",
            ex.twist.as_deref().unwrap_or("?"),
            format!("the project contains a reference that must not resolve ({}), but it was accepted", ex.twist.as_deref().unwrap_or("?")),
        ));
    }
    if let ResultObs::Err(es) = &out.result {
        for r in &ex.removed {
            let names_it = |f: &str| *r == f || r.ends_with(&format!("/{}", f.trim_start_matches("./")));
            if !es.iter().any(|e| e.variant == "FileNotFound" && names_it(&e.file)) {
                vs.push(v("missing-file-not-reported", "-", format!("{} is imported and missing, but no FileNotFound error names it", r)));
            }
        }
    }
    // 8. the entry point is the main file's `start`, whatever other files define under that name
    if ex.expect_ok && matches!(out.result, ResultObs::Ok) {
        if let Some(main_marker) = &ex.main_marker {
            match entry_function_body(&out.sink_bytes) {
                Some(body) => {
                    if !body.contains(main_marker.as_str()) {
                        let other = body.lines().find(|l| l.contains("ZMARK-")).unwrap_or("").trim().to_string();
                        vs.push(v(
                            "wrong-entry-point",
                            "-",
                            format!("the function the emitted program calls at the end is not the main file's `start` (expected marker {}, found: {})", main_marker, other),
                        ));
                    }
                }
                None => {} // emitter shape not recognised: no verdict (counted by the caller)
            }
        }
    }
    // 9. initialisation order: Lua scopes textually, so a generated variable that is read or assigned above its
    // `local` declaration is a different (global, nil) variable - the split program would then not behave like
    // the one-file program, whatever the interpreter does with it
    if ex.expect_ok && matches!(out.result, ResultObs::Ok) {
        if let Some((name, line, text)) = used_before_declared(&out.sink_bytes) {
            vs.push(v(
                "used-before-declared",
                "-",
                format!("the emitted Lua uses {} on line {} before any declaration of it ({})", name, line, text),
            ));
        }
    }
    // 4b. acceptance is invariant under splitting: the same globals in one file
    let mut flat_out = None;
    if let Some(flat) = &ex.flattened {
        let mut fc = Concrete::new(&c.main);
        fc.main_spelling = c.main_spelling.clone();
        fc.files.insert(c.main.clone(), flat.clone());
        fc.no_std = c.no_std;
        fc.hash_seed = c.hash_seed;
        let fo = execute(&fc);
        if ex.expect_ok && matches!(out.result, ResultObs::Ok) != matches!(fo.result, ResultObs::Ok) {
            vs.push(v(
                "split-changes-acceptance",
                &error_class(&fo),
                format!("multi-file project: {}; the same globals in one file: {}", first_error(&out), first_error(&fo)),
            ));
        }
        flat_out = Some(fo);
    }
    (vs, out, flat_out)
}

/// The first generated variable (`V<digits>`) of the program part of the emitted Lua that is declared somewhere
/// and occurs above every declaration of it (`local V`, `local function V`, a parameter list, a `for` header). None if there is none or
/// the output does not have the expected shape.
pub fn used_before_declared(lua: &[u8]) -> Option<(String, usize, String)> {
    let text = std::str::from_utf8(lua).ok()?;
    let start = text.find("-- End Sylt preamble").unwrap_or(0);
    let first_line = text[..start].matches('\n').count();
    // (the emitter also uses undeclared temporaries, `V9 = 10` / `V0 = V9`: a name that is never declared anywhere
    // is such a temporary and is harmless; what matters is a use *above* the declaration that exists further down)
    let mut declared: std::collections::BTreeSet<&str> = std::collections::BTreeSet::new();
    let mut early: Vec<(&str, usize, String)> = Vec::new();
    let ident = |b: u8| b.is_ascii_alphanumeric() || b == b'_';
    for (ln, line) in text[start..].lines().enumerate() {
        let b = line.as_bytes();
        let mut i = 0;
        // inside a string literal nothing is a variable
        let mut in_str: Option<u8> = None;
        while i < b.len() {
            let ch = b[i];
            if let Some(q) = in_str {
                if ch == b'\\' {
                    i += 2;
                    continue;
                }
                if ch == q {
                    in_str = None;
                }
                i += 1;
                continue;
            }
            if ch == b'"' || ch == b'\'' {
                in_str = Some(ch);
                i += 1;
                continue;
            }
            if ch == b'-' && i + 1 < b.len() && b[i + 1] == b'-' {
                break; // comment
            }
            if ch == b'V' && (i == 0 || !(ident(b[i - 1]) || b[i - 1] == b'.' || b[i - 1] == b':')) {
                let mut j = i + 1;
                while j < b.len() && b[j].is_ascii_digit() {
                    j += 1;
                }
                if j > i + 1 && (j == b.len() || !ident(b[j])) {
                    let name = &line[i..j];
                    if !declared.contains(name) {
                        let before = line[..i].trim_end();
                        let list_only = |s: &str| s.bytes().all(|c| ident(c) || c == b',' || c == b' ');
                        let declaring = before.ends_with("local")
                            || before.ends_with("local function")
                            || before.trim_start().strip_prefix("local ").map(|r| list_only(r)).unwrap_or(false)
                            || before.trim_start().strip_prefix("for ").map(|r| list_only(r)).unwrap_or(false)
                            || before.rfind('(').map(|p| list_only(&before[p + 1..]) && { let h = before[..p].trim_end(); h.ends_with("function") || h.rsplit(|c: char| !(c.is_ascii_alphanumeric() || c == '_')).next().map(|w| !w.is_empty()).unwrap_or(false) && h.contains("function ") }).unwrap_or(false);
                        if declaring {
                            declared.insert(name);
                            if let Some((n, l, t)) = early.iter().find(|(n, _, _)| *n == name) {
                                return Some((n.to_string(), *l, t.clone()));
                            }
                        } else if !early.iter().any(|(n, _, _)| *n == name) {
                            early.push((name, first_line + ln + 1, line.trim().chars().take(80).collect()));
                        }
                    }
                    i = j;
                    continue;
                }
            }
            i += 1;
        }
    }
    None
}

/// The body of the function that the last line of the emitted Lua calls (`local Vn = Vk()`),
/// found textually; None if the output does not have that shape.
pub fn entry_function_body(lua: &[u8]) -> Option<String> {
    let text = std::str::from_utf8(lua).ok()?;
    let last = text.lines().rev().find(|l| !l.trim().is_empty())?;
    // local V20 = V0()
    let call = last.trim().strip_prefix("local ")?.split(" = ").nth(1)?;
    let name = call.strip_suffix("()")?;
    if !name.starts_with('V') || !name[1..].chars().all(|c| c.is_ascii_digit()) {
        return None;
    }
    let header = format!("local function {}(", name);
    let start = text.find(&header)?;
    let rest = &text[start..];
    // top-level functions are closed by an `end` in column 0
    let stop = rest.find("\nend\n").map(|i| i + 5).unwrap_or(rest.len());
    Some(rest[..stop].to_string())
}

pub fn reevaluate(c: &Concrete, extra: &J) -> Vec<Violation> {
    check(c, &Expect::from_json(extra)).0
}

fn self_check(p: &Project) -> Option<String> {
    // the generator's path specs must mean, by the documented rules, the module they were generated for
    for m in &p.modules {
        for i in &m.imports {
            let resolved = modgen::model_resolve(&m.rel, &i.spec);
            if resolved != p.modules[i.target].rel {
                return Some(format!("{}: `{}` resolves to {} by the model but was generated for {}", m.rel, i.spec, resolved, p.modules[i.target].rel));
            }
        }
    }
    None
}

pub fn build(seed: u64) -> (Project, Concrete) {
    let mut fl = Rng::sub(seed, "c12-flags");
    let no_std = fl.chance(1, 4);
    let p = modgen::generate_with(seed, !no_std);
    let mut c = p.concrete.clone();
    c.no_std = no_std;
    c.hash_seed = fl.next();
    // how the main file is named on the command line must not matter
    c.main_spelling = match fl.below(6) {
        0 => "bare",
        1 => "dot-slash",
        2 => "relative-dir",
        _ => "absolute",
    }
    .to_string();
    (p, c)
}

pub fn run_one(_env: &Env, index: u64, seed: u64, stats: &mut Stats) -> (Vec<Found>, u64, u64) {
    let (p, c) = build(seed);
    if let Some(e) = self_check(&p) {
        // the generator produced something its own model reads differently: no verdict from this run
        stats.inc("harness.c12_generator_self_check_failed");
        stats.inc("runs");
        eprintln!("sylt-sim: C12 generator self-check failed at index {}: {}", index, e);
        return (Vec::new(), c.fnv(), 0);
    }
    let ex = Expect::from_json(&p.extra_json());
    let (vs, out, flat) = check(&c, &ex);

    stats.inc("runs");
    stats.inc(&format!("c12.modules.{}", p.modules.len()));
    for f in &p.features {
        stats.inc(&format!("c12.{}", f));
    }
    if let Some(t) = &p.twist {
        stats.inc(&format!("c12.twist.{}", t));
        if matches!(out.result, ResultObs::Err(_)) {
            stats.inc("c12.twist_rejected");
        }
    } else if matches!(out.result, ResultObs::Ok) {
        stats.inc("c12.positive_accepted");
    }
    if matches!(out.result, ResultObs::Ok) && p.expect_ok {
        if entry_function_body(&out.sink_bytes).is_some() {
            stats.inc("c12.entry_point_checked");
        } else {
            stats.inc("c12.entry_point_shape_not_recognised");
        }
    }
    if flat.as_ref().map(|f| matches!(f.result, ResultObs::Ok)).unwrap_or(false) {
        stats.inc("c12.flattened_accepted");
    }
    if c.no_std {
        stats.inc("flag.no_std");
    }
    stats.inc(&format!("c12.main_spelling.{}", c.main_spelling));
    stats.inc(&format!("phase.{}", out.phase()));
    match &out.result {
        ResultObs::Ok => stats.inc("result.ok"),
        ResultObs::Err(_) => stats.inc("result.err"),
        ResultObs::Panicked => stats.inc("result.panic"),
    }
    stats.add("events.read", out.reads.len() as u64);
    stats.add("events.write", out.writes.len() as u64);
    stats.add("maps_built", out.maps_built);
    if out.reads.iter().any(|(_, r)| *r == ReadRes::NotFound) {
        stats.inc("fault_fired.R1-missing-file");
    }
    if c.files.keys().any(|k| k.ends_with("unused_decoy.sy")) {
        stats.inc("c12.decoy_present_and_never_read");
    }
    let edges: usize = p.modules.iter().map(|m| m.imports.len()).sum();
    let sig = crate::rng::fnv64(
        format!(
            "{}|{:?}|{:?}|{}|{}|{}",
            p.modules.len(),
            p.features,
            p.twist,
            out.reads.len(),
            edges,
            out.phase()
        )
        .as_bytes(),
    );
    stats.signatures.insert(sig);
    if (out.reads.len() >= 2 && edges >= 1) || p.twist.is_some() {
        stats.nontrivial.insert(c.fnv());
    }
    // samples: one positive, one with a twist
    let want = if p.twist.is_some() { "sampled.twist" } else if p.modules.len() >= 3 { "sampled.positive" } else { "" };
    if !want.is_empty() && stats.counters.get(want).copied().unwrap_or(0) == 0 && c.total_bytes() < 1500 {
        stats.inc(want);
        let mut files = J::obj();
        for (k, t) in &c.files {
            files.put(k, J::s(t));
        }
        stats.samples.push(
            J::obj()
                .set("index", J::u(index))
                .set("run_seed", J::u(seed))
                .set("files", files)
                .set("twist", p.twist.as_ref().map(|t| J::s(t)).unwrap_or(J::Null))
                .set("model_expected_reads", crate::json::arr_str(p.expect_reads.iter()))
                .set("model_expected_verdict", J::s(if p.expect_ok { "accepted" } else { "rejected" }))
                .set("history", out.events_json(4)),
        );
    }

    let extra = p.extra_json();
    let events = out.events_json(6);
    let found = vs
        .into_iter()
        .map(|v| Found { violation: v, concrete: c.clone(), scenario: None, extra: extra.clone(), outcome_events: events.clone() })
        .collect();
    (found, c.fnv(), out.history_fnv())
}
