//! C12 (stub, replaced below)
use crate::json::J;
use crate::props::{Stats, Violation};
use crate::scenario::Concrete;
use crate::worker::{Env, Found};

pub fn run_one(_env: &Env, _index: u64, _seed: u64, _stats: &mut Stats) -> (Vec<Found>, u64, u64) {
    (Vec::new(), 0, 0)
}
pub fn reevaluate(_c: &Concrete, _extra: &J) -> Vec<Violation> {
    Vec::new()
}
