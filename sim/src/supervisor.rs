//! Supervisor: fans a batch of run indices out to worker processes, attributes
//! crashes and hangs to the run that was in flight, merges statistics, verifies every
//! replay file in a fresh process, applies the known-findings list, writes evidence.

use crate::json::J;
use crate::props::Stats;
use std::collections::BTreeMap;
use std::io::{BufRead, BufReader};
use std::process::{Child, Command, Stdio};
use std::sync::atomic::{AtomicBool, AtomicU64, Ordering};
use std::sync::{Arc, Mutex};
use std::time::{Duration, Instant};

pub fn verif_dir() -> String {
    std::env::var("SYLT_SIM_VERIF").unwrap_or_else(|_| "/verif".to_string())
}

pub fn scratch_base() -> String {
    std::env::var("SYLT_SIM_SCRATCH").unwrap_or_else(|_| format!("{}/.scratch", verif_dir()))
}

#[derive(Default)]
pub struct BatchResult {
    pub stats: Stats,
    /// violation id → (replay doc, occurrences)
    pub violations: BTreeMap<String, (J, u64)>,
    /// index → (scenario fnv, history fnv), audit mode only
    pub audit: BTreeMap<u64, (String, String)>,
    pub worker_restarts: u64,
    pub wall_s: f64,
    pub runs: u64,
}

struct Shared {
    result: Mutex<BatchResult>,
    /// crashes + hangs seen so far in this batch
    crash_events: AtomicU64,
    /// circuit breaker: once a batch has seen this many crashes or hangs the property is violated many
    /// times over and every further one costs a full CPU budget; stop the batch instead
    stop: AtomicBool,
}

const MAX_CRASH_EVENTS: u64 = 24;

fn cpu_ticks(pid: u32) -> Option<u64> {
    let s = std::fs::read_to_string(format!("/proc/{}/stat", pid)).ok()?;
    let rest = &s[s.rfind(')')? + 2..];
    let f: Vec<&str> = rest.split_whitespace().collect();
    // fields after ")": state(0) ... utime is field 14 overall → index 11 here, stime index 12
    let ut: u64 = f.get(11)?.parse().ok()?;
    let st: u64 = f.get(12)?.parse().ok()?;
    Some(ut + st)
}

pub struct BatchCfg {
    pub prop: String,
    pub batch_seed: u64,
    pub start: u64,
    pub end: u64,
    pub workers: u64,
    pub audit: bool,
    /// CPU seconds a single run may consume before it is declared hung
    pub hang_cpu_s: u64,
    pub tag: String,
}

/// Runs a worker process makes before it is replaced by a fresh one. What a compilation may depend on
/// - thread-locals, statics, caches filled by the first compilation of a process - is thereby sampled
/// many times per batch instead of once per worker.
pub const WORKER_LIFETIME: u64 = 1500;

/// First run index of the worker process that executes run `index` in a batch with `workers` slots.
pub fn chunk_start(index: u64, workers: u64) -> u64 {
    let w = workers.max(1);
    let slot_first = index % w;
    let span = WORKER_LIFETIME * w;
    slot_first + ((index - slot_first) / span) * span
}

fn spawn_worker(cfg: &BatchCfg, start: u64, end: u64, stride: u64, slot: u64) -> Child {
    let exe = std::env::current_exe().expect("current_exe");
    let scratch = format!("{}/{}-{}-w{}", scratch_base(), std::process::id(), cfg.tag, slot);
    // address-space limit: an allocation blow-up aborts one worker (and is attributed to its run)
    // instead of taking the machine down
    Command::new("prlimit")
        .arg("--as=8589934592")
        .arg(exe)
        .arg("worker")
        .arg(&cfg.prop)
        .arg(cfg.batch_seed.to_string())
        .arg(start.to_string())
        .arg(end.to_string())
        .arg(stride.to_string())
        .arg(if cfg.audit { "audit" } else { "noaudit" })
        .arg(scratch)
        .stdin(Stdio::null())
        .stdout(Stdio::piped())
        .stderr(Stdio::null())
        .spawn()
        .expect("spawn worker")
}

fn crash_doc(cfg: &BatchCfg, index: u64, clause: &str, class: &str, detail: &str) -> J {
    // generate() is pure, so the supervisor can rebuild the scenario that was in flight
    let (concrete, extra, trace, family) = crate::worker_scenario(&cfg.prop, cfg.batch_seed, index);
    J::obj()
        .set("property", J::s(&cfg.prop))
        .set("clause", J::s(clause))
        .set("class", J::s(class))
        .set("detail", J::s(detail))
        .set("verif_seed", J::u(cfg.batch_seed))
        .set("index", J::u(index))
        .set("run_seed", J::u(crate::worker::run_seed(cfg.batch_seed, &cfg.prop, index)))
        .set("minimised", J::Bool(false))
        .set("scenario", concrete.to_json())
        .set("original_fault_trace", trace)
        .set("original_family", J::s(&family))
        .set("extra", extra)
        .set("history", J::Arr(vec![J::s(&format!("BEGIN {}", index)), J::s(detail)]))
}

pub fn run_batch(cfg: &BatchCfg) -> BatchResult {
    let t0 = Instant::now();
    let shared = Arc::new(Shared { result: Mutex::new(BatchResult::default()), crash_events: AtomicU64::new(0), stop: AtomicBool::new(false) });
    let stride = cfg.workers.max(1);
    let mut handles = Vec::new();
    for slot in 0..stride {
        let first = cfg.start + slot;
        if first >= cfg.end {
            continue;
        }
        let shared = shared.clone();
        let cfg = BatchCfg {
            prop: cfg.prop.clone(),
            batch_seed: cfg.batch_seed,
            start: cfg.start,
            end: cfg.end,
            workers: cfg.workers,
            audit: cfg.audit,
            hang_cpu_s: cfg.hang_cpu_s,
            tag: cfg.tag.clone(),
        };
        handles.push(std::thread::spawn(move || {
            let mut next = first;
            // one slot = one strided sub-range; a dead worker is replaced and the range continues
            while next < cfg.end {
                if shared.stop.load(Ordering::SeqCst) {
                    break;
                }
                let chunk_end = (chunk_start(next, stride) + WORKER_LIFETIME * stride).min(cfg.end);
                let mut child = spawn_worker(&cfg, next, chunk_end, stride, slot);
                let pid = child.id();
                let stdout = child.stdout.take().unwrap();
                let current = Arc::new(AtomicU64::new(u64::MAX));
                let done = Arc::new(AtomicBool::new(false));
                let hung = Arc::new(AtomicBool::new(false));
                let minimising = Arc::new(AtomicBool::new(false));
                // watchdog: CPU time consumed while the same run is in flight
                let wd = {
                    let current = current.clone();
                    let done = done.clone();
                    let hung = hung.clone();
                    let minimising = minimising.clone();
                    let budget_ticks = cfg.hang_cpu_s * 100;
                    let shared_wd = shared.clone();
                    std::thread::spawn(move || {
                        let mut last_index = u64::MAX;
                        let mut last_shrinking = false;
                        let mut base = 0u64;
                        while !done.load(Ordering::SeqCst) {
                            std::thread::sleep(Duration::from_millis(250));
                            if shared_wd.stop.load(Ordering::SeqCst) {
                                unsafe_kill(pid);
                                return;
                            }
                            let idx = current.load(Ordering::SeqCst);
                            let cpu = match cpu_ticks(pid) {
                                Some(c) => c,
                                None => continue,
                            };
                            let shrinking = minimising.load(Ordering::SeqCst);
                            if idx != last_index || shrinking != last_shrinking {
                                last_index = idx;
                                last_shrinking = shrinking;
                                base = cpu;
                            } else if idx != u64::MAX && cpu.saturating_sub(base) > if shrinking { budget_ticks * 30 } else { budget_ticks } {
                                hung.store(true, Ordering::SeqCst);
                                unsafe_kill(pid);
                                return;
                            }
                        }
                    })
                };
                let mut finished = false;
                let reader = BufReader::with_capacity(1 << 16, stdout);
                for line in reader.lines() {
                    let line = match line {
                        Ok(l) => l,
                        Err(_) => break,
                    };
                    let (tagc, rest) = line.split_at(1.min(line.len()));
                    let rest = rest.trim_start();
                    match tagc {
                        "B" => {
                            if let Ok(i) = rest.parse::<u64>() {
                                current.store(i, Ordering::SeqCst);
                                minimising.store(false, Ordering::SeqCst);
                            }
                        }
                        "M" => {
                            // the worker is shrinking a finding it already reported: a different budget applies
                            minimising.store(true, Ordering::SeqCst);
                        }
                        "D" => {
                            let f: Vec<&str> = rest.split_whitespace().collect();
                            if f.len() == 3 {
                                if let Ok(i) = f[0].parse::<u64>() {
                                    shared.result.lock().unwrap().audit.insert(i, (f[1].to_string(), f[2].to_string()));
                                }
                            }
                        }
                        "V" => {
                            if let Ok(doc) = J::parse(rest) {
                                let id = format!("{}/{}", doc.str_of("clause"), doc.str_of("class"));
                                let mut r = shared.result.lock().unwrap();
                                match r.violations.get_mut(&id) {
                                    Some((old, n)) => {
                                        let same_run = doc.u64_of("index") == old.u64_of("index");
                                        if same_run && doc.bool_of("minimised") && !old.bool_of("minimised") {
                                            // the shrunken version of a finding that was reported a moment ago
                                            *old = doc;
                                        } else {
                                            *n += 1;
                                            if doc.u64_of("index") < old.u64_of("index") {
                                                *old = doc;
                                            }
                                        }
                                    }
                                    None => {
                                        r.violations.insert(id, (doc, 1));
                                    }
                                }
                            }
                        }
                        "R" => {
                            let mut r = shared.result.lock().unwrap();
                            if let Some((_, n)) = r.violations.get_mut(rest) {
                                *n += 1;
                            }
                        }
                        "S" => {
                            if let Ok(j) = J::parse(rest) {
                                let st = Stats::from_json(&j);
                                shared.result.lock().unwrap().stats.merge(&st);
                                if j.bool_of("final") {
                                    finished = true;
                                }
                            }
                        }
                        _ => {}
                    }
                }
                let status = child.wait();
                done.store(true, Ordering::SeqCst);
                let _ = wd.join();
                if shared.stop.load(Ordering::SeqCst) {
                    break;
                }
                if finished {
                    // this worker's lifetime is over: the next one starts at the first index of the slot past the chunk
                    let mut n = next;
                    while n < chunk_end {
                        n += stride;
                    }
                    next = n;
                    continue;
                }
                // the worker died with a run in flight
                let idx = current.load(Ordering::SeqCst);
                if idx == u64::MAX {
                    eprintln!("sylt-sim: worker for slot {} died before its first run: {:?}", slot, status);
                    shared.result.lock().unwrap().stats.inc("harness.worker_failed_to_start");
                    break;
                }
                if minimising.load(Ordering::SeqCst) {
                    // the process died (or was killed) while shrinking an already reported finding: the
                    // finding stays as it was reported; this is not a hang or crash of the run itself
                    let mut r = shared.result.lock().unwrap();
                    r.worker_restarts += 1;
                    r.stats.inc("harness.worker_lost_while_minimising");
                    drop(r);
                    next = idx + stride;
                    continue;
                }
                let (clause, class, detail) = if hung.load(Ordering::SeqCst) {
                    ("hang".to_string(), "cpu-budget".to_string(), format!("run {} consumed more than {} CPU seconds and was killed", idx, cfg.hang_cpu_s))
                } else {
                    let what = match &status {
                        Ok(s) => format!("{}", s),
                        Err(e) => format!("{}", e),
                    };
                    ("abort".to_string(), abort_class(&what), format!("worker process died during run {}: {}", idx, what))
                };
                let doc = crash_doc(&cfg, idx, &clause, &class, &detail);
                if shared.crash_events.fetch_add(1, Ordering::SeqCst) + 1 >= MAX_CRASH_EVENTS {
                    shared.stop.store(true, Ordering::SeqCst);
                }
                {
                    let mut r = shared.result.lock().unwrap();
                    r.worker_restarts += 1;
                    r.stats.inc("runs");
                    let id = format!("{}/{}", clause, class);
                    match r.violations.get_mut(&id) {
                        Some((old, n)) => {
                            *n += 1;
                            if idx < old.u64_of("index") {
                                *old = doc;
                            }
                        }
                        None => {
                            r.violations.insert(id, (doc, 1));
                        }
                    }
                }
                next = idx + stride;
            }
        }));
    }
    for h in handles {
        let _ = h.join();
    }
    let mut r = std::mem::take(&mut *shared.result.lock().unwrap());
    if shared.stop.load(Ordering::SeqCst) {
        r.stats.inc("harness.batch_stopped_early_after_repeated_crashes_or_hangs");
        println!("NOTE: batch {} stopped early after {} crashes/hangs (each costs a full CPU budget)", cfg.tag, MAX_CRASH_EVENTS);
    }
    r.wall_s = t0.elapsed().as_secs_f64();
    r.runs = r.stats.counters.get("runs").copied().unwrap_or(0);
    r
}

fn abort_class(status: &str) -> String {
    if status.contains("signal: 11") || status.contains("SIGSEGV") {
        "SIGSEGV(stack-overflow?)".into()
    } else if status.contains("signal: 6") || status.contains("SIGABRT") {
        "SIGABRT".into()
    } else if status.contains("signal: 9") {
        "SIGKILL(oom?)".into()
    } else {
        format!("exit:{}", status)
    }
}

fn unsafe_kill(pid: u32) {
    let _ = Command::new("kill").arg("-9").arg(pid.to_string()).status();
}

// ------------------------------------------------------------------------------------

pub struct Known {
    pub property: String,
    pub status: String,
    pub clause: String,
    pub class_prefix: String,
    pub what: String,
}

pub fn load_known() -> Vec<Known> {
    let path = format!("{}/known_findings.json", verif_dir());
    let text = match std::fs::read_to_string(&path) {
        Ok(t) => t,
        Err(_) => return Vec::new(),
    };
    let j = match J::parse(&text) {
        Ok(j) => j,
        Err(e) => {
            eprintln!("sylt-sim: cannot parse {}: {}", path, e);
            std::process::exit(2);
        }
    };
    let mut out = Vec::new();
    if let Some(a) = j.get("findings").and_then(|a| a.as_arr()) {
        for f in a {
            let m = f.get("match").cloned().unwrap_or(J::obj());
            out.push(Known {
                property: f.str_of("property"),
                status: f.str_of("status"),
                clause: m.str_of("clause"),
                class_prefix: m.str_of("class_prefix"),
                what: f.str_of("what"),
            });
        }
    }
    out
}

pub fn slug(s: &str) -> String {
    let mut out = String::new();
    for c in s.chars() {
        if c.is_ascii_alphanumeric() {
            out.push(c.to_ascii_lowercase());
        } else if !out.ends_with('-') {
            out.push('-');
        }
    }
    out.trim_matches('-').chars().take(60).collect()
}

/// Runs `sylt-sim replay <file>` in a fresh process; true if it reports the same violation id.
pub fn replay_in_fresh_process(path: &str, id: &str, cpu_s: u64) -> (bool, String) {
    let exe = std::env::current_exe().expect("current_exe");
    let out = Command::new("timeout")
        .arg(format!("{}", cpu_s * 4 + 60))
        .arg(exe)
        .arg("replay")
        .arg(path)
        .stdin(Stdio::null())
        .output();
    match out {
        Ok(o) => {
            let text = String::from_utf8_lossy(&o.stdout).to_string();
            let same = text.lines().any(|l| l.starts_with("REPRODUCED ") && (id == "*" || l[11..].trim() == id));
            (same, text)
        }
        Err(e) => (false, format!("{}", e)),
    }
}

/// Runs `sylt-sim replay <file>` as a child whose death or spinning is the thing observed.
/// Returns ("hang" | "exit" | abort class, detail).
pub fn run_replay_inner(path: &str, cpu_budget_s: u64) -> (String, String) {
    let exe = std::env::current_exe().expect("current_exe");
    let mut child = match Command::new(exe).arg("replay").arg(path).env("SYLT_SIM_REPLAY_INNER", "1").stdin(Stdio::null()).stdout(Stdio::null()).stderr(Stdio::null()).spawn() {
        Ok(c) => c,
        Err(e) => return ("exit".into(), format!("spawn failed: {}", e)),
    };
    let pid = child.id();
    loop {
        match child.try_wait() {
            Ok(Some(status)) => {
                if status.code().is_some() {
                    return ("exit".into(), format!("{}", status));
                }
                let what = format!("{}", status);
                return (abort_class(&what), format!("the process running the scenario died: {}", what));
            }
            Ok(None) => {}
            Err(e) => return ("exit".into(), format!("{}", e)),
        }
        if let Some(t) = cpu_ticks(pid) {
            if t > cpu_budget_s * 100 {
                unsafe_kill(pid);
                let _ = child.wait();
                return ("hang".into(), format!("the scenario consumed more than {} CPU seconds and was killed", cpu_budget_s));
            }
        }
        std::thread::sleep(Duration::from_millis(100));
    }
}
