//! Layer B (stub, replaced below)
use crate::json::J;

pub struct LayerBResult {
    pub coverage: J,
    pub violations: Vec<(String, J, u64)>,
}

pub fn run_c20(_tier: &str, _seed: u64) -> LayerBResult {
    LayerBResult { coverage: J::obj(), violations: Vec::new() }
}
pub fn run_c16_processes(_tier: &str, _seed: u64) -> LayerBResult {
    LayerBResult { coverage: J::obj(), violations: Vec::new() }
}
pub fn replay(_doc: &J, _id: &str) -> i32 {
    2
}
pub fn lua_stub_main() -> i32 {
    0
}
