//! Layer B: the REAL `sylt` binary as a process, in a private scratch directory, with a
//! STUB `lua` first on PATH. Used by C20 (driver contract) and by C16 (cross-process,
//! unseeded-hash and environment variations).

use crate::corpus::Corpus;
use crate::exec::{self, execute, normalise, strip_ansi, ResultObs};
use crate::gen::{self, Bias};
use crate::json::J;
use crate::props::{check_require, Violation};
use crate::rng::{fnv64, splitmix64, tag, Rng};
use crate::scenario::{Concrete, RenderPlan, SinkPlan, SIM_ROOT};
use std::collections::{BTreeMap, BTreeSet};
use std::io::{Read, Write};
use std::path::Path;
use std::process::{Command, Stdio};
use std::sync::{Arc, Mutex};
use std::time::{Duration, Instant};

pub struct LayerBResult {
    pub coverage: J,
    pub violations: Vec<(String, J, u64)>,
}

pub fn sylt_bin() -> String {
    std::env::var("SYLT_SIM_BIN").unwrap_or_else(|_| format!("{}/target/repo-bin/debug/sylt", crate::supervisor::verif_dir()))
}

// ------------------------------------------------------------------------------------
// the stub peer

/// `lua` stub: drains stdin to EOF, stores it, then emits the planned stderr text and exit
/// status. It never executes Lua. Plan comes from the environment.
pub fn lua_stub_main() -> i32 {
    let mode = std::env::var("SYLT_SIM_LUA_MODE").unwrap_or_default();
    if let Some(ms) = std::env::var("SYLT_SIM_LUA_DELAY_MS").ok().and_then(|v| v.parse::<u64>().ok()) {
        // a peer that is slow to start reading its input
        std::thread::sleep(Duration::from_millis(ms));
    }
    let mut buf = Vec::new();
    if mode != "nodrain" {
        let _ = std::io::stdin().read_to_end(&mut buf);
    }
    if let Ok(p) = std::env::var("SYLT_SIM_LUA_CAPTURE") {
        let tmp = format!("{}.tmp", p);
        if std::fs::write(&tmp, &buf).is_ok() {
            let _ = std::fs::rename(&tmp, &p);
        }
    }
    if !buf.is_empty() && std::env::var("SYLT_SIM_LUA_BINARY_STDOUT").map(|v| v == "1").unwrap_or(false) {
        // a program that prints bytes which are not UTF-8 (a Latin-1 string, binary data); an empty program (what the
        // peer is given when the compilation failed) prints nothing
        let _ = std::io::stdout().write_all(&[0x48, 0x65, 0x6a, 0x20, 0xe5, 0xe4, 0xf6, 0xff, 0xfe, 0x0a]);
        let _ = std::io::stdout().flush();
    }
    if let Ok(t) = std::env::var("SYLT_SIM_LUA_STDERR") {
        if !t.is_empty() {
            let _ = std::io::stderr().write_all(t.as_bytes());
        }
    }
    std::env::var("SYLT_SIM_LUA_EXIT").ok().and_then(|v| v.parse().ok()).unwrap_or(0)
}

// ------------------------------------------------------------------------------------
// cells

#[derive(Clone, Debug, PartialEq)]
pub struct Cell {
    /// "run" | "file" | "stdout" | "help" | "noargs"
    pub mode: String,
    pub require: Option<String>,
    pub no_std: bool,
    /// for mode "file": O1-absent | O2-existing | O3-parent-missing | O4-is-directory | O5-component-is-file | O6-dev-full
    pub target: String,
    /// for mode "run": P1-ok | P2-stderr-exit1 | P3-stderr-exit0 | P4-silent-exit1
    pub peer: String,
    /// "present" | "main-missing"
    pub input: String,
    /// how the main file is named on the command line: "absolute" | "bare" | "dot-slash" | "relative-dir"
    /// (the working directory is chosen accordingly)
    pub spelling: String,
    /// a system-call fault injected into the sylt process (with `strace -e inject`), restricted to one path
    pub fault: Option<SyscallFault>,
    /// the flags are written after the main file on the command line instead of before it
    pub flags_last: bool,
}

#[derive(Clone, Debug, PartialEq)]
pub struct SyscallFault {
    /// "write" | "read" | "openat"
    pub syscall: String,
    /// errno name: "EINTR" | "EIO" | "ENOSPC" | "EACCES" | "EMFILE"
    pub error: String,
    /// the k-th matching call (1-based)
    pub when: u32,
    /// which path the fault is tied to: "target" (the -o FILE), "main", or a scenario path of another source file
    pub on: String,
}

impl SyscallFault {
    pub fn label(&self) -> String {
        format!("{}:{}@{}#{}", self.syscall, self.error, if self.on.starts_with('/') { "import" } else { &self.on }, self.when)
    }
    pub fn transient(&self) -> bool {
        self.error == "EINTR"
    }
}

impl Cell {
    pub fn to_json(&self) -> J {
        J::obj()
            .set("mode", J::s(&self.mode))
            .set("require", self.require.as_ref().map(|s| J::s(s)).unwrap_or(J::Null))
            .set("no_std", J::Bool(self.no_std))
            .set("target", J::s(&self.target))
            .set("peer", J::s(&self.peer))
            .set("input", J::s(&self.input))
            .set("spelling", J::s(&self.spelling))
            .set("flags_last", J::Bool(self.flags_last))
            .set(
                "fault",
                match &self.fault {
                    Some(f) => J::obj().set("syscall", J::s(&f.syscall)).set("error", J::s(&f.error)).set("when", J::u(f.when as u64)).set("on", J::s(&f.on)),
                    None => J::Null,
                },
            )
    }
    pub fn from_json(j: &J) -> Cell {
        Cell {
            mode: j.str_of("mode"),
            require: j.get("require").and_then(|r| r.as_str()).map(|s| s.to_string()),
            no_std: j.bool_of("no_std"),
            target: j.str_of("target"),
            peer: j.str_of("peer"),
            input: j.str_of("input"),
            spelling: if j.str_of("spelling").is_empty() { "absolute".into() } else { j.str_of("spelling") },
            fault: j.get("fault").and_then(|f| f.as_obj().map(|_| SyscallFault { syscall: f.str_of("syscall"), error: f.str_of("error"), when: f.u64_of("when") as u32, on: f.str_of("on") })),
            flags_last: j.bool_of("flags_last"),
        }
    }
    pub fn label(&self) -> String {
        format!(
            "{}{}{}{}{}{}",
            self.mode,
            if self.mode == "file" { format!(":{}", self.target) } else { String::new() },
            if self.mode == "run" { format!(":{}", self.peer) } else { String::new() },
            if self.require.is_some() { "+require" } else { "" },
            if self.no_std { "+no-std" } else { "" },
            if self.input != "present" { "+main-missing" } else { "" }
        ) + &self.fault.as_ref().map(|f| format!("+{}", f.label())).unwrap_or_default()
            + if self.flags_last { "+flags-after-file" } else { "" }
    }
}

pub const REQUIRE_NAMES: &[&str] = &["zz_ext", "zz_ext.lua", "zz.core", "lib/zz_helpers.lua", "./zz_local", "zz.a.b.lua", "zz-dash", "zz.lua.bak"];

/// Can system calls of a child be failed on purpose here? (ptrace may be unavailable in some sandboxes;
/// then the fault cells are skipped and the evidence says so, rather than every one of them "failing".)
pub fn strace_injection_works() -> bool {
    use std::sync::OnceLock;
    static OK: OnceLock<bool> = OnceLock::new();
    *OK.get_or_init(|| {
        let dir = format!("{}/{}-straceprobe", crate::supervisor::scratch_base(), std::process::id());
        let _ = std::fs::create_dir_all(&dir);
        let target = format!("{}/probe.txt", dir);
        let out = Command::new("strace")
            .args(["-f", "-o", "/dev/null", "-e", "trace=write", "-e", "inject=write:error=ENOSPC:when=1", "-P", &target, "sh", "-c"])
            .arg(format!("echo probe > {}", target))
            .stdin(Stdio::null())
            .stdout(Stdio::null())
            .stderr(Stdio::null())
            .status();
        // the injected ENOSPC makes the shell's echo fail; without injection it succeeds
        let injected = matches!(out, Ok(s) if s.code() == Some(1) || s.code() == Some(2));
        let plain = Command::new("strace").args(["-o", "/dev/null", "-e", "trace=write", "true"]).status().map(|s| s.success()).unwrap_or(false);
        let _ = std::fs::remove_dir_all(&dir);
        injected && plain
    })
}

pub fn all_cells(req_a: &str, req_b: &str) -> Vec<Cell> {
    let mut out = Vec::new();
    let flags: Vec<(Option<String>, bool)> = vec![(None, false), (Some(req_a.into()), false), (None, true), (Some(req_b.into()), true)];
    for (req, ns) in &flags {
        for peer in ["P1-ok", "P1b-binary-stdout", "P1s-slow-reader", "P2-stderr-exit1", "P2b-long-stderr-exit1", "P3-stderr-exit0", "P4-silent-exit1", "P5-fails-without-reading", "P0-lua-absent"] {
            if (peer == "P1s-slow-reader" || peer == "P1b-binary-stdout" || peer == "P0-lua-absent" || peer == "P5-fails-without-reading") && (req.is_some() || *ns) {
                continue;
            }
            out.push(Cell { mode: "run".into(), require: req.clone(), no_std: *ns, target: String::new(), peer: peer.into(), input: "present".into(), spelling: "absolute".into(), fault: None, flags_last: false });
        }
        for target in ["O1-absent", "O2-existing", "O2c-existing-empty", "O2b-existing-longer", "O3-parent-missing", "O4-is-directory", "O5-component-is-file", "O6-dev-full", "O9-dev-null"] {
            if target == "O9-dev-null" && (req.is_some() || *ns) {
                continue;
            }
            out.push(Cell { mode: "file".into(), require: req.clone(), no_std: *ns, target: target.into(), peer: String::new(), input: "present".into(), spelling: "absolute".into(), fault: None, flags_last: false });
        }
        out.push(Cell { mode: "stdout".into(), require: req.clone(), no_std: *ns, target: String::new(), peer: String::new(), input: "present".into(), spelling: "absolute".into(), fault: None, flags_last: false });
    }
    for mode in ["run", "file", "stdout"] {
        out.push(Cell {
            mode: mode.into(),
            require: None,
            no_std: false,
            target: if mode == "file" { "O2-existing".into() } else { String::new() },
            peer: if mode == "run" { "P1-ok".into() } else { String::new() },
            input: "main-missing".into(),
            spelling: "absolute".into(),
            fault: None,
            flags_last: false,
        });
    }
    // the same invocations with the flags written after the main file
    for (mode, target, peer, req, ns) in [("file", "O1-absent", "", Some(req_a.to_string()), false), ("stdout", "", "", None, true), ("run", "", "P1-ok", Some(req_b.to_string()), false), ("file", "O2-existing", "", None, false)] {
        out.push(Cell { mode: mode.into(), require: req, no_std: ns, target: target.into(), peer: peer.into(), input: "present".into(), spelling: "absolute".into(), fault: None, flags_last: true });
    }
    // system-call faults in the sylt process itself, tied to one path (the strace injection seam)
    let f = |syscall: &str, error: &str, on: &str| Some(SyscallFault { syscall: syscall.into(), error: error.into(), when: 1, on: on.into() });
    for (mode, target, fault) in [
        ("file", "O1-absent", f("write", "EINTR", "target")),
        ("file", "O2-existing", f("write", "EINTR", "target")),
        ("file", "O2b-existing-longer", f("write", "EINTR", "target")),
        ("file", "O1-absent", f("write", "ENOSPC", "target")),
        ("file", "O2-existing", f("write", "EIO", "target")),
        ("file", "O1-absent", f("read", "EINTR", "main")),
        ("stdout", "", f("read", "EINTR", "main")),
        ("file", "O2-existing", f("read", "EIO", "main")),
        ("stdout", "", f("openat", "EACCES", "main")),
        ("file", "O1-absent", f("openat", "EMFILE", "main")),
    ] {
        out.push(Cell { mode: mode.into(), require: None, no_std: false, target: target.into(), peer: String::new(), input: "present".into(), spelling: "absolute".into(), fault, flags_last: false });
    }
    out.push(Cell { mode: "help".into(), require: None, no_std: false, target: String::new(), peer: String::new(), input: "present".into(), spelling: "absolute".into(), fault: None, flags_last: false });
    out.push(Cell { mode: "noargs".into(), require: None, no_std: false, target: String::new(), peer: String::new(), input: "present".into(), spelling: "absolute".into(), fault: None, flags_last: false });
    out
}

#[derive(Clone, Debug, Default)]
pub struct ProcObs {
    pub exit: Option<i32>,
    pub signal: bool,
    pub timed_out: bool,
    pub stdout: Vec<u8>,
    pub stderr: Vec<u8>,
    /// relative path → "dir" | "file:<len>:<fnv>"
    pub tree_before: BTreeMap<String, String>,
    pub tree_after: BTreeMap<String, String>,
    pub peer_stdin: Option<Vec<u8>>,
    pub target_bytes: Option<Vec<u8>>,
}

impl ProcObs {
    pub fn history(&self, root: &str) -> String {
        let mut s = String::new();
        s.push_str(&format!("EXIT {:?} signal={} timeout={}\n", self.exit, self.signal, self.timed_out));
        let out = normalise(root, &String::from_utf8_lossy(&self.stdout));
        s.push_str(&format!("STDOUT {} {:x}\n", out.len(), fnv64(out.as_bytes())));
        let err = strip_thread_id(&normalise(root, &String::from_utf8_lossy(&self.stderr)));
        s.push_str(&format!("STDERR {} {:x}\n", err.len(), fnv64(err.as_bytes())));
        for (k, v) in &self.tree_after {
            if self.tree_before.get(k) != Some(v) {
                s.push_str(&format!("FS-DIFF {} {:?} -> {}\n", k, self.tree_before.get(k), v));
            }
        }
        for k in self.tree_before.keys() {
            if !self.tree_after.contains_key(k) {
                s.push_str(&format!("FS-DIFF {} removed\n", k));
            }
        }
        match &self.peer_stdin {
            Some(b) => s.push_str(&format!("PEER-STDIN {} {:x}\n", b.len(), fnv64(b))),
            None => s.push_str("PEER-STDIN none\n"),
        }
        s
    }
}

/// Rust's panic message names the OS thread id: `thread 'main' (12345) panicked at`.
fn strip_thread_id(s: &str) -> String {
    let mut out = String::new();
    let mut rest = s;
    while let Some(i) = rest.find("thread '") {
        out.push_str(&rest[..i]);
        let after = &rest[i..];
        if let Some(p) = after.find("' (") {
            let tail = &after[p + 3..];
            let digits = tail.chars().take_while(|c| c.is_ascii_digit()).count();
            if digits > 0 && tail[digits..].starts_with(')') {
                out.push_str(&after[..p + 3]);
                out.push_str("TID");
                rest = &tail[digits..];
                continue;
            }
        }
        out.push_str("thread '");
        rest = &after[8..];
    }
    out.push_str(rest);
    out
}

fn tree(dir: &Path, base: &Path, out: &mut BTreeMap<String, String>) {
    let mut entries: Vec<_> = match std::fs::read_dir(dir) {
        Ok(rd) => rd.flatten().map(|e| e.path()).collect(),
        Err(_) => return,
    };
    entries.sort();
    for p in entries {
        let rel = p.strip_prefix(base).unwrap().display().to_string();
        if p.is_dir() {
            out.insert(rel, "dir".into());
            tree(&p, base, out);
        } else if std::fs::metadata(&p).map(|m| m.is_file()).unwrap_or(false) {
            let b = std::fs::read(&p).unwrap_or_default();
            out.insert(rel, format!("file:{}:{:x}", b.len(), fnv64(&b)));
        } else {
            // a FIFO or a device: reading it would block or consume what the process is to read
            out.insert(rel, "special".into());
        }
    }
}

pub struct Program {
    /// files with paths under SIM_ROOT
    pub files: BTreeMap<String, String>,
    pub main: String,
    pub label: String,
    pub std_free: bool,
}

/// What the library (layer A, in-process, same real files) says about program + flags.
pub struct Expected {
    pub accepted: bool,
    pub bytes: Vec<u8>,
    pub rendered_errors: Vec<String>,
    pub panicked: bool,
}

fn expected_for(prog: &Program, root: &str, require: &Option<String>, no_std: bool, main_missing: bool) -> Expected {
    let mut c = Concrete::new(&prog.main);
    c.files = prog.files.clone();
    if main_missing {
        c.files.remove(&prog.main);
    }
    c.require = require.clone();
    c.no_std = no_std;
    c.sink = SinkPlan::Plain;
    c.render = RenderPlan::default();
    c.hash_seed = 0;
    exec::set_root(root);
    let out = execute(&c);
    match &out.result {
        ResultObs::Ok => Expected { accepted: true, bytes: out.sink_bytes.clone(), rendered_errors: vec![], panicked: false },
        ResultObs::Err(es) => Expected {
            accepted: false,
            bytes: vec![],
            rendered_errors: es.iter().map(|e| e.rendered.clone().unwrap_or_default()).collect(),
            panicked: false,
        },
        ResultObs::Panicked => Expected { accepted: false, bytes: vec![], rendered_errors: vec![], panicked: true },
    }
}

pub struct Runner {
    pub scratch: String,
    pub bin: String,
    pub path_env: String,
}

impl Runner {
    pub fn new(scratch: &str) -> Runner {
        let bindir = format!("{}/stubbin", scratch);
        let _ = std::fs::create_dir_all(&bindir);
        let lua = format!("{}/lua", bindir);
        let _ = std::fs::remove_file(&lua);
        let exe = std::env::current_exe().expect("current_exe");
        let _ = std::os::unix::fs::symlink(&exe, &lua);
        Runner { scratch: scratch.to_string(), bin: sylt_bin(), path_env: format!("{}:/usr/bin:/bin", bindir) }
    }

    /// Lays the program out in a fresh directory and returns (root, project dir).
    pub fn layout(&self, prog: &Program, k: &str, main_missing: bool) -> String {
        let root = format!("{}/{}", self.scratch, k);
        let _ = std::fs::remove_dir_all(&root);
        let _ = std::fs::create_dir_all(&root);
        for (p, t) in &prog.files {
            if main_missing && *p == prog.main {
                continue;
            }
            let real = format!("{}{}", root, p.strip_prefix(SIM_ROOT).unwrap_or(p));
            if let Some(d) = Path::new(&real).parent() {
                let _ = std::fs::create_dir_all(d);
            }
            let _ = std::fs::write(&real, t);
        }
        root
    }

    pub fn run_cell(&self, prog: &Program, cell: &Cell, root: &str, extra_env: &[(String, String)]) -> ProcObs {
        let main_real = format!("{}{}", root, prog.main.strip_prefix(SIM_ROOT).unwrap_or(&prog.main));
        let main_path = Path::new(&main_real);
        let main_name = main_path.file_name().map(|n| n.to_string_lossy().to_string()).unwrap_or_default();
        let main_dir = main_path.parent().map(|p| p.display().to_string()).unwrap_or_else(|| root.to_string());
        let main_dir_name = Path::new(&main_dir).file_name().map(|n| n.to_string_lossy().to_string()).unwrap_or_default();
        let cwd = match cell.spelling.as_str() {
            "bare" | "dot-slash" => main_dir.clone(),
            "relative-dir" => Path::new(&main_dir).parent().map(|p| p.display().to_string()).unwrap_or_else(|| root.to_string()),
            _ => root.to_string(),
        };
        let outdir = format!("{}/out", root);
        // the working directory is part of the environment too (only varied when the main file is named absolutely)
        let cwd = match extra_env.iter().find(|(k, _)| k == "SYLT_SIM_CWD").map(|(_, v)| v.as_str()) {
            Some("/") if cell.spelling == "absolute" => "/".to_string(),
            Some("out-dir") if cell.spelling == "absolute" => outdir.clone(),
            _ => cwd,
        };
        let _ = std::fs::create_dir_all(&cwd);
        if cell.target != "O8-left-over-from-previous-compile" {
            let _ = std::fs::remove_dir_all(&outdir);
        }
        let _ = std::fs::create_dir_all(&outdir);
        let capture = format!("{}.peer-stdin", root);
        let _ = std::fs::remove_file(&capture);
        let mut args: Vec<String> = Vec::new();
        let mut target_path: Option<String> = None;
        match cell.mode.as_str() {
            "help" => args.push("--help".into()),
            "noargs" => {}
            m => {
                if extra_env.iter().any(|(k, v)| k == "SYLT_SIM_VERBOSE" && v == "1") {
                    args.push("-v".into());
                }
                if let Some(r) = &cell.require {
                    args.push("--require".into());
                    args.push(r.clone());
                }
                if cell.no_std {
                    args.push("--no-std".into());
                }
                if m == "stdout" {
                    args.push("-o".into());
                    args.push("-".into());
                }
                if m == "file" {
                    let t = match cell.target.as_str() {
                        "O1-absent" | "O8-left-over-from-previous-compile" => format!("{}/prog.lua", outdir),
                        "O2-existing" => {
                            let p = format!("{}/prog.lua", outdir);
                            let _ = std::fs::write(&p, b"SENTINEL: previous contents of the output file\n");
                            p
                        }
                        "O2c-existing-empty" => {
                            // what `touch`, `mktemp` or an interrupted earlier build leave behind
                            let p = format!("{}/prog.lua", outdir);
                            let _ = std::fs::write(&p, b"");
                            p
                        }
                        "O2b-existing-longer" => {
                            // an older, much longer output of some other program
                            let p = format!("{}/prog.lua", outdir);
                            let mut junk = Vec::with_capacity(400_000);
                            while junk.len() < 400_000 {
                                junk.extend_from_slice(b"-- stale line of a previous, longer output\n");
                            }
                            let _ = std::fs::write(&p, &junk);
                            p
                        }
                        "O3-parent-missing" => format!("{}/nodir/prog.lua", outdir),
                        "O4-is-directory" => {
                            let p = format!("{}/adir", outdir);
                            let _ = std::fs::create_dir_all(&p);
                            p
                        }
                        "O5-component-is-file" => {
                            let p = format!("{}/afile", outdir);
                            let _ = std::fs::write(&p, b"i am a file\n");
                            format!("{}/prog.lua", p)
                        }
                        // device targets are private nodes next to the scratch tree (mknod c 1 3 / c 1 7): the compiler
                        // under test may be wrong enough to delete or replace its target, and the checks run as root
                        "O9-dev-null" => private_device(root, "null", 3),
                        _ => private_device(root, "full", 7),
                    };
                    args.push("-o".into());
                    args.push(t.clone());
                    target_path = Some(t);
                }
                let main_arg = match cell.spelling.as_str() {
                    "bare" => main_name.clone(),
                    "dot-slash" => format!("./{}", main_name),
                    "relative-dir" => format!("{}/{}", main_dir_name, main_name),
                    _ => main_real.clone(),
                };
                if cell.flags_last {
                    args.insert(0, main_arg);
                } else {
                    args.push(main_arg);
                }
            }
        }
        let mut before = BTreeMap::new();
        tree(Path::new(root), Path::new(root), &mut before);

        let long_err: String;
        let (stderr_text, exit_code) = match cell.peer.as_str() {
            "P2b-long-stderr-exit1" => {
                // a deep Lua stack trace: more than a pipe buffer holds
                let mut t = String::from("lua: stdin:1: attempt to call a nil value (global 'zz')\nstack traceback:\n");
                for k in 0..2500 {
                    t.push_str(&format!("\tstdin:{}: in function <stdin:{}>\n", k, k));
                }
                long_err = t;
                (long_err.as_str(), 1)
            }
            "P2-stderr-exit1" | "P5-fails-without-reading" => ("lua: stdin:1: attempt to call a nil value (global 'zz')\nstack traceback:\n\t[C]: in ?\n", 1),
            "P3-stderr-exit0" => ("lua: stdin:7: Assert failed!\n", 0),
            "P4-silent-exit1" => ("", 1),
            _ => ("", 0),
        };
        let mut cmd = Command::new("timeout");
        cmd.arg("-k").arg("5").arg("30");
        if let Some(f) = &cell.fault {
            let path = match f.on.as_str() {
                "target" => target_path.clone().unwrap_or_default(),
                "main" => main_real.clone(),
                other => format!("{}{}", root, other.strip_prefix(SIM_ROOT).unwrap_or(other)),
            };
            cmd.arg("strace").arg("-f").arg("-o").arg("/dev/null").arg("-e").arg(format!("trace={}", f.syscall)).arg("-e").arg(format!("inject={}:error={}:when={}", f.syscall, f.error, f.when)).arg("-P").arg(path);
        }
        if let Some(cpus) = extra_env.iter().find(|(k, _)| k == "SYLT_SIM_CPUS").and_then(|(_, n)| cpu_set(n)) {
            cmd.arg("taskset").arg("-c").arg(cpus);
        }
        cmd.arg("prlimit").arg("--as=4294967296").arg(&self.bin).args(&args);
        cmd.current_dir(&cwd)
            .env_clear()
            .env("PATH", if cell.peer == "P0-lua-absent" { "/nonexistent-directory" } else { self.path_env.as_str() })
            .env("SYLT_SIM_LUA_DELAY_MS", if cell.peer == "P1s-slow-reader" { "120" } else { "0" })
            .env("SYLT_SIM_LUA_MODE", if cell.peer == "P5-fails-without-reading" { "nodrain" } else { "drain" })
            .env("SYLT_SIM_LUA_BINARY_STDOUT", if cell.peer == "P1b-binary-stdout" { "1" } else { "0" })
            .env("HOME", root)
            .env("SYLT_SIM_LUA_CAPTURE", &capture)
            .env("SYLT_SIM_LUA_STDERR", stderr_text)
            .env("SYLT_SIM_LUA_EXIT", exit_code.to_string())
            .stdin(Stdio::null())
            .stdout(Stdio::piped())
            .stderr(Stdio::piped());
        for (k, v) in extra_env {
            if k == "SYLT_SIM_SOURCE_MTIME" {
                // the sources carry a time stamp far in the past or in the future
                for p in prog.files.keys() {
                    let real = format!("{}{}", root, p.strip_prefix(SIM_ROOT).unwrap_or(p));
                    let _ = Command::new("touch").arg("-d").arg(format!("@{}", v)).arg(&real).stdout(Stdio::null()).stderr(Stdio::null()).status();
                }
                continue;
            }
            if k == "SYLT_SIM_CWD" || k == "SYLT_SIM_VERBOSE" {
                continue;
            }
            if k == "SYLT_SIM_CPUS" {
                // the number of CPUs the process may use is part of its environment (handled below: taskset)
                continue;
            }
            if k == "SYLT_SIM_CLOCK_OFFSET" {
                // the clock seam: every clock the process reads is shifted (LD_PRELOAD shim, when it could be built)
                if let Ok(shim) = std::env::var("SYLT_SIM_CLOCK_SHIM") {
                    cmd.env("LD_PRELOAD", shim);
                }
            }
            cmd.env(k, v);
        }
        let mut obs = ProcObs::default();
        obs.tree_before = before;
        match cmd.output() {
            Ok(o) => {
                obs.exit = o.status.code();
                obs.signal = o.status.code().is_none();
                obs.timed_out = matches!(o.status.code(), Some(137) | Some(124));
                obs.stdout = o.stdout;
                obs.stderr = o.stderr;
            }
            Err(e) => {
                obs.stderr = format!("spawn failed: {}", e).into_bytes();
            }
        }
        if cell.mode == "run" {
            // the stub stores what it was fed after draining stdin; give it a moment to finish
            let t0 = Instant::now();
            while t0.elapsed() < Duration::from_secs(5) {
                if Path::new(&capture).exists() {
                    break;
                }
                std::thread::sleep(Duration::from_millis(2));
            }
            obs.peer_stdin = std::fs::read(&capture).ok();
            let _ = std::fs::remove_file(&capture);
        }
        tree(Path::new(root), Path::new(root), &mut obs.tree_after);
        if let Some(t) = &target_path {
            if t != "/dev/full" && t != "/dev/null" && !t.contains(".devs/") && Path::new(t).is_file() {
                obs.target_bytes = std::fs::read(t).ok();
            }
        }
        obs
    }
}

fn v(clause: &str, class: &str, detail: String) -> Violation {
    Violation { prop: "C20".into(), clause: clause.into(), class: class.into(), detail }
}

fn is_subsequence(needle: &[String], hay: &[String]) -> Option<String> {
    let mut i = 0;
    for n in needle {
        let mut found = false;
        while i < hay.len() {
            if hay[i] == *n {
                found = true;
                i += 1;
                break;
            }
            i += 1;
        }
        if !found {
            return Some(n.clone());
        }
    }
    None
}

pub struct CellVerdict {
    pub violations: Vec<Violation>,
    pub observations: Vec<String>,
}

/// The C20 oracle for one process run.
pub fn judge(cell: &Cell, exp: &Expected, obs: &ProcObs, root: &str, preamble: &str, exp_plain: Option<&Expected>) -> CellVerdict {
    let mut vs = Vec::new();
    let mut notes = Vec::new();
    let label = cell.label();
    if obs.timed_out {
        vs.push(v("process-hang", &cell.mode, format!("[{}] the sylt process did not finish within 30 s", label)));
        return CellVerdict { violations: vs, observations: notes };
    }
    let exit = obs.exit.unwrap_or(-1);
    match cell.mode.as_str() {
        "help" => {
            if exit != 0 {
                vs.push(v("exit-status", "help", format!("--help exited with {}", exit)));
            }
            return CellVerdict { violations: vs, observations: notes };
        }
        "noargs" => {
            if exit == 0 {
                vs.push(v("exit-status", "noargs", "no arguments, but exit status 0".into()));
            }
            return CellVerdict { violations: vs, observations: notes };
        }
        _ => {}
    }
    if exp.panicked {
        // C07 territory; the driver contract has nothing to compare against
        notes.push("library-panicked".into());
        return CellVerdict { violations: vs, observations: notes };
    }
    // outside the quantifier: recorded, never judged
    if cell.mode == "file" && cell.target == "O6-dev-full" {
        notes.push(format!("O6-dev-full exit={}", exit));
        return CellVerdict { violations: vs, observations: notes };
    }
    if cell.mode == "run" && cell.peer == "P4-silent-exit1" {
        notes.push(format!("P4-silent-peer-failure exit={}", exit));
        // still: the peer must have been fed the right program
        if exp.accepted {
            if let Some(b) = &obs.peer_stdin {
                if *b != exp.bytes {
                    vs.push(v("peer-input", "run", format!("[{}] lua was fed {} bytes, the compiled program is {} bytes", label, b.len(), exp.bytes.len())));
                }
            }
        }
        return CellVerdict { violations: vs, observations: notes };
    }

    if cell.mode == "file" && cell.target == "O9-dev-null" {
        // a writable path that is not a regular file (the way to compile without keeping the output)
        if exp.accepted && exit != 0 {
            vs.push(v("exit-status", "nonzero-on-success", format!("[{}] compilation succeeded and /dev/null is writable, but the exit status is {}", label, exit)));
        }
        if !exp.accepted && exit == 0 {
            vs.push(v("exit-status", "zero-on-rejected", format!("[{}] the program is rejected but the exit status is 0", label)));
        }
        return CellVerdict { violations: vs, observations: notes };
    }
    if let Some(fault) = &cell.fault {
        if fault.on == "target" && !fault.transient() {
            // a device error or a full disk while writing: the property quantifies over output *paths*, not over
            // failing devices - recorded, not judged (but the exit status must not claim success)
            notes.push(format!("syscall-fault {} exit={} file={}", fault.label(), exit, match &obs.target_bytes { Some(b) if *b == exp.bytes => "complete", Some(b) if b.is_empty() => "empty", Some(_) => "partial", None => "absent" }));
            if exp.accepted && exit == 0 && obs.target_bytes.as_ref().map(|b| *b != exp.bytes).unwrap_or(true) {
                vs.push(v("exit-status", "zero-after-failed-write", format!("[{}] writing FILE failed with {} but the exit status is 0 and FILE is not the complete program", label, fault.error)));
            }
            return CellVerdict { violations: vs, observations: notes };
        }
        // transient faults (EINTR) must be invisible; a source that cannot be read is judged like a missing one
        // (the caller computed the expectation accordingly)
    }
    let target_ok = cell.mode != "file" || matches!(cell.target.as_str(), "O1-absent" | "O2-existing" | "O2c-existing-empty" | "O2b-existing-longer" | "O8-left-over-from-previous-compile");
    if cell.mode == "run" && cell.peer == "P0-lua-absent" {
        // no interpreter to run the program with: whatever the program is, this is not a success
        if exit == 0 {
            vs.push(v("exit-status", "zero-without-interpreter", format!("[{}] there is no lua on PATH but the exit status is 0", label)));
        }
        return CellVerdict { violations: vs, observations: notes };
    }
    let peer_ok = cell.mode != "run" || cell.peer == "P1-ok" || cell.peer == "P1s-slow-reader" || cell.peer == "P1b-binary-stdout";
    let should_succeed = exp.accepted && target_ok && peer_ok;

    // B1 exit status
    if should_succeed && exit != 0 {
        vs.push(v("exit-status", "nonzero-on-success", format!("[{}] compilation (and execution) succeeded but the exit status is {}", label, exit)));
    }
    if !should_succeed && exit == 0 {
        let why = if !exp.accepted {
            "the program is rejected"
        } else if !peer_ok {
            "execution failed (lua reported an error)"
        } else {
            "the output file cannot be created"
        };
        vs.push(v("exit-status", if !exp.accepted { "zero-on-rejected" } else if !peer_ok { "zero-on-runtime-failure" } else { "zero-on-unwritable-target" }, format!("[{}] {} but the exit status is 0", label, why)));
    }

    let all_out = format!("{}\n{}", String::from_utf8_lossy(&obs.stdout), String::from_utf8_lossy(&obs.stderr));
    let all_out = normalise(root, &strip_ansi(&all_out));
    let out_lines: Vec<String> = all_out.lines().map(|l| l.trim_end().to_string()).collect();

    // B2 every error is printed, in order
    if !exp.accepted {
        let mut want: Vec<String> = Vec::new();
        for r in &exp.rendered_errors {
            for l in r.lines() {
                let l = l.trim_end();
                if !l.is_empty() {
                    want.push(l.to_string());
                }
            }
        }
        if cell.mode == "stdout" {
            // in -o - mode the program and the errors share stdout; nothing else may be on it
        }
        if let Some(missing) = is_subsequence(&want, &out_lines) {
            vs.push(v(
                "errors-not-printed",
                &cell.mode,
                format!("[{}] the program is rejected with {} error(s) but this line of their rendering is not in the output (or out of order): {:?}", label, exp.rendered_errors.len(), missing),
            ));
        }
    }
    if exp.accepted && cell.mode == "run" && !peer_ok {
        let text = if cell.peer.starts_with("P2b") { "in function <stdin:2499>" } else if cell.peer.starts_with("P2") || cell.peer.starts_with("P5") { "attempt to call a nil value" } else { "Assert failed!" };
        if !all_out.contains(text) {
            vs.push(v("errors-not-printed", "lua-stderr", format!("[{}] lua's error text is not in the output", label)));
        }
    }

    // B3 all-or-nothing file
    if cell.mode == "file" {
        let changed: Vec<String> = {
            let mut ch = Vec::new();
            for (k, val) in &obs.tree_after {
                if obs.tree_before.get(k) != Some(val) {
                    ch.push(k.clone());
                }
            }
            for k in obs.tree_before.keys() {
                if !obs.tree_after.contains_key(k) {
                    ch.push(format!("{} (removed)", k));
                }
            }
            ch
        };
        if exit == 0 {
            match &obs.target_bytes {
                Some(b) if *b == exp.bytes => {}
                Some(b) => vs.push(v(
                    "file-incomplete",
                    &cell.target,
                    format!("[{}] exit status 0 but FILE holds {} bytes, the complete program is {} bytes", label, b.len(), exp.bytes.len()),
                )),
                None => vs.push(v("file-incomplete", &cell.target, format!("[{}] exit status 0 but FILE does not exist", label))),
            }
            let unexpected: Vec<&String> = changed.iter().filter(|c| c.as_str() != "out/prog.lua").collect();
            if !unexpected.is_empty() {
                vs.push(v("stray-files", &cell.target, format!("[{}] besides FILE these paths changed: {:?}", label, unexpected)));
            }
        } else if !changed.is_empty() {
            vs.push(v(
                "file-touched-on-failure",
                &cell.target,
                format!("[{}] exit status {} but the directory tree changed: {:?} (FILE must be left untouched)", label, exit, changed),
            ));
        }
    } else {
        // run / stdout modes create nothing
        let changed: Vec<&String> = obs.tree_after.iter().filter(|(k, val)| obs.tree_before.get(*k) != Some(*val)).map(|(k, _)| k).collect();
        if !changed.is_empty() {
            vs.push(v("stray-files", &cell.mode, format!("[{}] files changed: {:?}", label, changed)));
        }
    }

    // B4 stdout carries exactly the bytes -o FILE writes
    if cell.mode == "stdout" && exp.accepted {
        if obs.stdout != exp.bytes {
            let common = obs.stdout.iter().zip(exp.bytes.iter()).take_while(|(a, b)| a == b).count();
            vs.push(v(
                "stdout-differs-from-file",
                "-",
                format!("[{}] -o - wrote {} bytes to stdout, -o FILE writes {} bytes (first difference at byte {})", label, obs.stdout.len(), exp.bytes.len(), common),
            ));
        }
    }
    if cell.mode == "stdout" && !exp.accepted {
        // nothing of the program may precede the errors
        if obs.stdout.starts_with(b"-- Begin Sylt preamble") || (preamble.len() > 40 && obs.stdout.starts_with(&preamble.as_bytes()[..40])) {
            vs.push(v("partial-output-on-failure", "stdout", format!("[{}] the program is rejected but Lua was written to stdout", label)));
        }
    }

    // B5 run mode feeds the same program (unless the peer chose not to read it)
    if cell.mode == "run" && cell.peer != "P5-fails-without-reading" {
        match &obs.peer_stdin {
            Some(b) => {
                if exp.accepted && *b != exp.bytes {
                    let common = b.iter().zip(exp.bytes.iter()).take_while(|(a, c)| a == c).count();
                    vs.push(v(
                        "peer-input",
                        "run",
                        format!("[{}] lua was fed {} bytes, -o FILE writes {} bytes (first difference at byte {})", label, b.len(), exp.bytes.len(), common),
                    ));
                }
                if !exp.accepted && !b.is_empty() {
                    vs.push(v("partial-output-on-failure", "run", format!("[{}] the program is rejected but lua was fed {} bytes", label, b.len())));
                }
            }
            None => {
                if exp.accepted {
                    vs.push(v("peer-input", "not-started", format!("[{}] the program is accepted but lua never received it", label)));
                }
            }
        }
    }

    // B6 --require on the real outputs
    if let (Some(m), Some(plain)) = (&cell.require, exp_plain) {
        if exp.accepted && plain.accepted && exit == 0 {
            let got: Option<&Vec<u8>> = match cell.mode.as_str() {
                "file" => obs.target_bytes.as_ref(),
                "stdout" => Some(&obs.stdout),
                "run" => obs.peer_stdin.as_ref(),
                _ => None,
            };
            if let Some(g) = got {
                vs.extend(check_require("C20", m, g, &plain.bytes, preamble));
            }
        }
        if exp.accepted != plain.accepted {
            vs.push(v("require", "verdict", format!("[{}] --require changes accept/reject", label)));
        }
    }
    CellVerdict { violations: vs, observations: notes }
}

/// A model expectation rather than the library's list: n statements of one block that each use an unknown name are
/// n independent errors, and each is printed - wherever the compilation is reached at all (with a file or stdout
/// as the target, or with a working interpreter).
pub fn judge_model(prog_label: &str, cell: &Cell, obs: &ProcObs) -> Vec<Violation> {
    let mut vs = Vec::new();
    if let Some(n) = prog_label.strip_prefix("errors-in-one-block:").and_then(|n| n.parse::<usize>().ok()) {
        let compiled = match cell.mode.as_str() {
            "file" | "stdout" => true,
            "run" => cell.peer == "P1-ok",
            _ => false,
        };
        if compiled && cell.input == "present" && cell.fault.is_none() && !obs.timed_out {
            let all = format!("{}{}", String::from_utf8_lossy(&obs.stdout), String::from_utf8_lossy(&obs.stderr));
            if let Some(k) = (0..n).find(|k| !all.contains(&format!("zz_nope_{}_q", k))) {
                vs.push(v("errors-not-printed", "one-of-several-in-a-block", format!("[{}] {} statements of one block each use an unknown name; the error for zz_nope_{}_q is not in the output", cell.label(), n, k)));
            }
        }
    }
    vs
}

// ------------------------------------------------------------------------------------
// program sampling

/// Error counts around the boundaries a driver can trip over (exit status is 8 bits wide).
pub const ERROR_COUNTS: &[usize] = &[1, 2, 16, 127, 128, 255, 256, 257, 511, 512, 513, 1024];

/// One erroneous top-level unit, repeated n times (k is substituted for `#`).
pub const ERROR_UNITS: &[(&str, &str)] = &[
    ("missing-import", "use missing_module_#\n"),
    ("bad-definition", "bad# :: )\n"),
    ("dangling-operator-in-fn", "f# :: fn do\n    1 +\nend\n"),
    ("missing-comma-in-fn", "f# :: fn do\n    x := (1 2)\nend\n"),
    ("bad-blob-field", "B# :: blob {\n    a: ,\n}\n"),
    ("if-without-condition", "f# :: fn do\n    if do\n    end\nend\n"),
    ("bad-enum", "E# :: enum\n    A (,\nend\n"),
    ("unresolved-name-in-fn", "f# :: fn do\n    zz_nope_#\nend\n"),
    ("type-error-in-fn", "f# :: fn do\n    x: int = \"s\"\nend\n"),
    ("bad-case-branch", "f# :: fn do\n    case 1 do\n        + 2 do\n        end\n    end\nend\n"),
    ("stray-end", "end\n"),
    ("else-without-if", "f# :: fn do\n    else do\n    end\nend\n"),
];

pub fn many_errors_program(n: usize, kind: usize) -> Program {
    let main = format!("{}/many/main.sy", SIM_ROOT);
    let (name, unit) = ERROR_UNITS[kind % ERROR_UNITS.len()];
    let mut text = String::new();
    for k in 0..n {
        text.push_str(&unit.replace('#', &k.to_string()));
    }
    text.push_str("start :: fn do\nend\n");
    let mut files = BTreeMap::new();
    files.insert(main.clone(), text);
    Program { files, main, label: format!("many-errors:{}x{}", n, name), std_free: false }
}

/// Small rejected programs, one kind of error each: every kind goes through the driver contract.
pub const SINGLE_ERRORS: &[(&str, &str)] = &[
    ("value-dependency-cycle", "za :: zb\nzb :: za\n"),
    ("mutually-recursive-functions", "ze :: fn n -> bool do\n    if n == 0 do ret true end\n    ret zo(n - 1)\nend\nzo :: fn n -> bool do\n    if n == 0 do ret false end\n    ret ze(n - 1)\nend\n"),
    ("self-initialised-global", "zt := zt + 1\n"),
    ("type-mismatch", "zx: int = \"s\"\n"),
    ("unresolved-name", "zy :: zz_nope\n"),
    ("collision-with-preamble-name", "print :: fn do end\n"),
    ("duplicate-definition", "zd :: 1\nzd :: 2\n"),
    ("missing-import", "use zz_missing_module\n"),
    ("from-import-of-missing-name", "from zz_missing_module use nothing\n"),
    ("blob-with-unknown-field-type", "Zb :: blob { a: Zork }\n"),
    ("syntax-error", "zs :: )\n"),
    ("conflict-marker", "<<<<<<< HEAD\n"),
];

pub fn single_error_program(kind: usize) -> Program {
    let main = format!("{}/one/main.sy", SIM_ROOT);
    let (name, unit) = SINGLE_ERRORS[kind % SINGLE_ERRORS.len()];
    let mut files = BTreeMap::new();
    files.insert(main.clone(), format!("{}start :: fn do\nend\n", unit));
    Program { files, main, label: format!("single-error:{}", name), std_free: false }
}

/// n statements in one function body, each using a different unknown name.
pub fn errors_in_one_block_program(n: usize) -> Program {
    let main = format!("{}/blk/main.sy", SIM_ROOT);
    let mut text = String::from("start :: fn do\n    a := 1\n");
    for k in 0..n {
        match k % 3 {
            0 => text.push_str(&format!("    b{} := a + zz_nope_{}_q\n", k, k)),
            1 => text.push_str(&format!("    zz_nope_{}_q(a)\n", k)),
            _ => text.push_str(&format!("    if zz_nope_{}_q do\n        a <=> 1\n    end\n", k)),
        }
    }
    text.push_str("    a <=> 1\nend\n");
    let mut files = BTreeMap::new();
    files.insert(main.clone(), text);
    Program { files, main, label: format!("errors-in-one-block:{}", n), std_free: false }
}

pub fn sample_program(seed: u64, index: u64, corpus: &Corpus) -> Program {
    if index % 40 == 9 {
        return errors_in_one_block_program(2 + (index / 40) as usize % 7);
    }
    if index % 10 == 7 {
        return single_error_program((index / 10) as usize);
    }
    // stratified: every tenth program is rejected with a chosen number of errors
    if index % 10 == 3 {
        let k = (index / 10) as usize;
        // walk the (count, unit) grid along a diagonal so that both vary from program to program
        return many_errors_program(ERROR_COUNTS[k % ERROR_COUNTS.len()], k + k / ERROR_COUNTS.len());
    }
    let mut r = Rng::sub(seed, "layerb-program");
    // a mix: fault-free and faulted corpus programs, generated projects, long literals
    let mut stats = crate::props::Stats::default();
    let (sc, c) = crate::worker::gen_screened(seed, corpus, Bias::Sink, &mut stats);
    let mut files = c.files.clone();
    for p in &c.io_errors {
        files.remove(p);
    }
    // keep the project small on disk
    if files.len() > 12 {
        let keep: BTreeSet<String> = files.keys().take(12).cloned().chain(std::iter::once(c.main.clone())).collect();
        files.retain(|k, _| keep.contains(k));
    }
    let _ = r.next();
    // "does not use the standard library" = a generated project as generated; a storage fault may add anything
    Program { std_free: sc.family == "generated-project" && sc.faults.is_empty(), label: format!("{}+{}faults", sc.family, sc.faults.len()), files, main: c.main.clone() }
}

// ------------------------------------------------------------------------------------
// C20 batch

struct Agg {
    cells_run: u64,
    programs: u64,
    accepted_programs: u64,
    rejected_programs: u64,
    per_cell: BTreeMap<String, u64>,
    observations: BTreeMap<String, u64>,
    violations: BTreeMap<String, (J, u64)>,
    distinct_pairs: BTreeSet<u64>,
    rerun_checked: u64,
    rerun_mismatch: u64,
    sample: Option<J>,
    no_std_equiv_checked: u64,
    hangs: BTreeMap<String, u64>,
}

fn layer_b_doc(prop: &str, v: &Violation, prog: &Program, cell: &Cell, obs: &ProcObs, root: &str, batch_seed: u64, index: u64) -> J {
    let mut files = J::obj();
    for (k, t) in &prog.files {
        files.put(k, J::s(t));
    }
    J::obj()
        .set("property", J::s(prop))
        .set("clause", J::s(&v.clause))
        .set("class", J::s(&v.class))
        .set("detail", J::s(&v.detail))
        .set("verif_seed", J::u(batch_seed))
        .set("index", J::u(index))
        .set("minimised", J::Bool(false))
        .set("layer_b", J::obj().set("files", files).set("main", J::s(&prog.main)).set("cell", cell.to_json()).set("program_label", J::s(&prog.label)))
        .set("history", J::Arr(obs.history(root).lines().map(|l| J::s(l)).collect()))
}

pub fn run_c20(tier: &str, batch_seed: u64) -> LayerBResult {
    let n_programs: u64 = std::env::var("SYLT_SIM_LAYERB_PROGRAMS").ok().and_then(|v| v.parse().ok()).unwrap_or(if tier == "quick" { 240 } else { 12_000 });
    if !Path::new(&sylt_bin()).exists() {
        eprintln!("sylt-sim: the sylt binary {} does not exist (run /verif/check, which builds it)", sylt_bin());
        let mut cov = J::obj();
        cov.put("harness.layer_b_binary_missing", J::u(1));
        return LayerBResult { coverage: cov, violations: vec![("harness/layer-b-binary-missing".into(), J::obj().set("clause", J::s("harness")).set("class", J::s("layer-b-binary-missing")).set("detail", J::s("sylt binary not built")), 1)] };
    }
    let t0 = Instant::now();
    let agg = Arc::new(Mutex::new(Agg {
        cells_run: 0,
        programs: 0,
        accepted_programs: 0,
        rejected_programs: 0,
        per_cell: BTreeMap::new(),
        observations: BTreeMap::new(),
        violations: BTreeMap::new(),
        distinct_pairs: BTreeSet::new(),
        rerun_checked: 0,
        rerun_mismatch: 0,
        sample: None,
        no_std_equiv_checked: 0,
        hangs: BTreeMap::new(),
    }));
    let threads = 16u64;
    let n_cells = all_cells("a", "b").len();
    let preamble = Arc::new(crate::props::preamble_text());
    let mut hs = Vec::new();
    for t in 0..threads {
        let agg = agg.clone();
        let preamble = preamble.clone();
        hs.push(std::thread::Builder::new().stack_size(256 << 20).spawn(move || {
            exec::install_panic_hook();
            let corpus = crate::corpus::load();
            let scratch = format!("{}/{}-layerb-t{}", crate::supervisor::scratch_base(), std::process::id(), t);
            let _ = std::fs::create_dir_all(&scratch);
            let runner = Runner::new(&scratch);
            let mut i = t;
            while i < n_programs {
                let seed = splitmix64(batch_seed ^ tag("C20-layerB") ^ splitmix64(i));
                let prog = sample_program(seed, i, &corpus);
                let mut rq = Rng::sub(seed, "require-names");
                let cells = all_cells(*rq.pick(REQUIRE_NAMES), *rq.pick(REQUIRE_NAMES));
                let root = runner.layout(&prog, "p", false);
                let mut exp_cache: BTreeMap<(Option<String>, bool, bool), Expected> = BTreeMap::new();
                let mut local_cells = 0u64;
                let mut accepted_plain = false;
                let mut exit_by_flags: BTreeMap<(String, String, String, bool), i32> = BTreeMap::new();
                for (ci, cell) in cells.iter().enumerate() {
                    let main_missing = cell.input == "main-missing";
                    let root_used = if main_missing { runner.layout(&prog, "pm", true) } else { root.clone() };
                    // a main file that exists but cannot be opened or read is, to the compiler, a missing file
                    let unreadable_main = cell.fault.as_ref().map(|f| f.on == "main" && !f.transient()).unwrap_or(false);
                    let main_missing = main_missing || unreadable_main;
                    let key = (cell.require.clone(), cell.no_std, main_missing);
                    if !exp_cache.contains_key(&key) {
                        let e = expected_for(&prog, &root_used, &cell.require, cell.no_std, main_missing);
                        exp_cache.insert(key.clone(), e);
                    }
                    let plain_key = (None, cell.no_std, main_missing);
                    if !exp_cache.contains_key(&plain_key) {
                        let e = expected_for(&prog, &root_used, &None, cell.no_std, main_missing);
                        exp_cache.insert(plain_key.clone(), e);
                    }
                    if cell.fault.is_some() && !strace_injection_works() {
                        *agg.lock().unwrap().observations.entry("system-call fault cells skipped: strace injection is not available here".to_string()).or_insert(0) += 1;
                        continue;
                    }
                    // a cell that keeps hanging costs 30 s each time: after a few, stop running that cell
                    let hung_before = { agg.lock().unwrap().hangs.get(&cell.label()).copied().unwrap_or(0) };
                    if hung_before >= 3 {
                        *agg.lock().unwrap().observations.entry(format!("cell {} skipped after 3 hangs", cell.label())).or_insert(0) += 1;
                        continue;
                    }
                    let obs = runner.run_cell(&prog, cell, &root_used, &[]);
                    if obs.timed_out {
                        *agg.lock().unwrap().hangs.entry(cell.label()).or_insert(0) += 1;
                    }
                    local_cells += 1;
                    let exp = &exp_cache[&key];
                    if ci == 0 {
                        accepted_plain = exp.accepted;
                    }
                    let mut verdict = judge(cell, exp, &obs, &root_used, &preamble, exp_cache.get(&plain_key));
                    verdict.violations.extend(judge_model(&prog.label, cell, &obs));
                    // determinism of layer B itself: a sample of cells is run twice
                    let rerun = (seed ^ ci as u64) % 8 == 0;
                    let mut mismatch = false;
                    if rerun {
                        let obs2 = runner.run_cell(&prog, cell, &root_used, &[]);
                        mismatch = obs.history(&root_used) != obs2.history(&root_used);
                        if mismatch && std::env::var("SYLT_SIM_DEBUG").is_ok() {
                            eprintln!("LAYER-B MISMATCH [{}] {}\n--- first\n{}--- second\n{}", cell.label(), prog.label, obs.history(&root_used), obs2.history(&root_used));
                        }
                    }
                    if let Some(code) = obs.exit {
                        if cell.input == "present" && cell.require.is_none() && cell.fault.is_none() {
                            exit_by_flags.insert((cell.mode.clone(), cell.target.clone(), cell.peer.clone(), cell.no_std), code);
                        }
                    }
                    let mut a = agg.lock().unwrap();
                    a.cells_run += 1;
                    *a.per_cell.entry(cell.label()).or_insert(0) += 1;
                    a.distinct_pairs.insert(fnv64(format!("{}|{}", seed, cell.label()).as_bytes()));
                    for n in verdict.observations {
                        *a.observations.entry(n).or_insert(0) += 1;
                    }
                    if rerun {
                        a.rerun_checked += 1;
                        if mismatch {
                            a.rerun_mismatch += 1;
                        }
                    }
                    if a.sample.is_none() && cell.mode == "file" && cell.target == "O2-existing" && !exp.accepted && prog.files.len() <= 2 {
                        a.sample = Some(layer_b_doc("C20", &Violation { prop: "C20".into(), clause: "sample".into(), class: "-".into(), detail: "a sampled layer-B cell (no violation)".into() }, &prog, cell, &obs, &root_used, batch_seed, i));
                    }
                    for vv in verdict.violations {
                        let id = vv.id();
                        let doc = layer_b_doc("C20", &vv, &prog, cell, &obs, &root_used, batch_seed, i);
                        match a.violations.get_mut(&id) {
                            Some((old, n)) => {
                                *n += 1;
                                if i < old.u64_of("index") {
                                    *old = doc;
                                }
                            }
                            None => {
                                a.violations.insert(id, (doc, 1));
                            }
                        }
                    }
                }
                // --no-std changes nothing for programs that do not use the standard library
                let mut nostd_violation: Option<Violation> = None;
                if prog.std_free {
                    for ((mode, target, peer, ns), code) in &exit_by_flags {
                        if *ns {
                            continue;
                        }
                        if let Some(code2) = exit_by_flags.get(&(mode.clone(), target.clone(), peer.clone(), true)) {
                            if (*code == 0) != (*code2 == 0) {
                                nostd_violation = Some(v("no-std", "exit-status", format!("a program that does not use the standard library exits with {} normally and {} with --no-std ({} {} {})", code, code2, mode, target, peer)));
                            }
                        }
                    }
                }
                let mut a = agg.lock().unwrap();
                a.programs += 1;
                if accepted_plain {
                    a.accepted_programs += 1;
                } else {
                    a.rejected_programs += 1;
                }
                if prog.std_free {
                    a.no_std_equiv_checked += 1;
                }
                if let Some(vv) = nostd_violation {
                    let cell = Cell { mode: "file".into(), require: None, no_std: true, target: "O1-absent".into(), peer: String::new(), input: "present".into(), spelling: "absolute".into(), fault: None, flags_last: false };
                    let doc = layer_b_doc("C20", &vv, &prog, &cell, &ProcObs::default(), &root, batch_seed, i);
                    a.violations.entry(vv.id()).or_insert((doc, 0)).1 += 1;
                }
                let _ = local_cells;
                drop(a);
                i += threads;
            }
            let _ = std::fs::remove_dir_all(&scratch);
        }).unwrap());
    }
    for h in hs {
        let _ = h.join();
    }
    let a = agg.lock().unwrap();
    let mut per_cell = J::obj();
    for (k, n) in &a.per_cell {
        per_cell.put(k, J::u(*n));
    }
    let mut observations = J::obj();
    for (k, n) in &a.observations {
        observations.put(k, J::u(*n));
    }
    let mut cov = J::obj()
        .set("add_evaluations", J::u(a.cells_run))
        .set("add_distinct", J::u(a.distinct_pairs.len() as u64))
        .set(
            "layer_b",
            J::obj()
                .set("programs", J::u(a.programs))
                .set("programs_accepted", J::u(a.accepted_programs))
                .set("programs_rejected", J::u(a.rejected_programs))
                .set("process_runs", J::u(a.cells_run + a.rerun_checked))
                .set("cells_per_program", J::u(n_cells as u64))
                .set("cells", per_cell)
                .set("rerun_determinism_checked", J::u(a.rerun_checked))
                .set("rerun_determinism_mismatches", J::u(a.rerun_mismatch))
                .set("std_free_programs_compared_with_no_std", J::u(a.no_std_equiv_checked))
                .set("wall_s", J::Num((t0.elapsed().as_secs_f64() * 10.0).round() / 10.0))
                .set("binary", J::s(&sylt_bin())),
        )
        .set("observations_outside_quantifier", observations);
    if let Some(s) = &a.sample {
        cov.put("layer_b_sample", s.clone());
    }
    let mut violations: Vec<(String, J, u64)> = a.violations.iter().map(|(k, (d, n))| (k.clone(), d.clone(), *n)).collect();
    if a.rerun_mismatch > 0 {
        violations.push((
            "harness/layer-b-nondeterministic".into(),
            J::obj().set("clause", J::s("harness")).set("class", J::s("layer-b-nondeterministic")).set("detail", J::s("a layer-B cell gave two different histories when run twice")),
            a.rerun_mismatch,
        ));
    }
    LayerBResult { coverage: cov, violations }
}

pub fn replay(doc: &J, id: &str) -> i32 {
    let lb = match doc.get("layer_b") {
        Some(l) => l,
        None => return 2,
    };
    let prop = doc.str_of("property");
    let mut files = BTreeMap::new();
    if let Some(o) = lb.get("files").and_then(|f| f.as_obj()) {
        for (k, t) in o {
            files.insert(k.clone(), t.as_str().unwrap_or("").to_string());
        }
    }
    let prog = Program { files, main: lb.str_of("main"), label: lb.str_of("program_label"), std_free: false };
    let scratch = format!("{}/{}-replayb", crate::supervisor::scratch_base(), std::process::id());
    let _ = std::fs::create_dir_all(&scratch);
    exec::install_panic_hook();
    let runner = Runner::new(&scratch);
    let code;
    if prop == "C16" {
        code = replay_c16(doc, &prog, &runner, id);
    } else if prop == "C12" {
        code = replay_c12_process(doc, &prog, &runner, id);
    } else if prop == "C07" {
        let root = runner.layout(&prog, "p", false);
        let cell = Cell::from_json(lb.get("cell").unwrap_or(&J::obj()));
        let obs = runner.run_cell(&prog, &cell, &root, &[]);
        print!("{}", obs.history(&root));
        match judge_c07_process(&obs) {
            Some(x) if id == "*" || x.id() == id => {
                println!("REPRODUCED {}", x.id());
                println!("{}", x.detail);
                println!("VIOLATION property=C07 replay=<this file>");
                code = 1;
            }
            other => {
                println!("NOT-REPRODUCED {} (got {:?})", id, other.map(|x| x.id()));
                code = 0;
            }
        }
    } else {
        let cell = Cell::from_json(lb.get("cell").unwrap_or(&J::obj()));
        let main_missing = cell.input == "main-missing";
        let root = runner.layout(&prog, "p", main_missing);
        let main_missing = main_missing || cell.fault.as_ref().map(|f| f.on == "main" && !f.transient()).unwrap_or(false);
        let exp = expected_for(&prog, &root, &cell.require, cell.no_std, main_missing);
        let plain = expected_for(&prog, &root, &None, cell.no_std, main_missing);
        let obs = runner.run_cell(&prog, &cell, &root, &[]);
        let mut verdict = judge(&cell, &exp, &obs, &root, &crate::props::preamble_text(), Some(&plain));
        verdict.violations.extend(judge_model(&prog.label, &cell, &obs));
        print!("{}", obs.history(&root));
        match verdict.violations.iter().find(|x| id == "*" || x.id() == id) {
            Some(x) => {
                println!("REPRODUCED {}", x.id());
                println!("{}", x.detail);
                println!("VIOLATION property={} replay=<this file>", prop);
                code = 1;
            }
            None => {
                println!("NOT-REPRODUCED {}", id);
                code = 0;
            }
        }
    }
    let _ = std::fs::remove_dir_all(&scratch);
    code
}

// ------------------------------------------------------------------------------------
// C16 at the process level: unseeded hashing (real entropy per process), environment, cwd

/// A character device node of our own (major 1, the given minor) next to the scratch tree; the system's node only
/// if one cannot be made (not root: then the process under test cannot remove the system's node either).
fn private_device(root: &str, name: &str, minor: u32) -> String {
    use std::os::unix::fs::FileTypeExt;
    let dir = format!("{}.devs", root.trim_end_matches('/'));
    let path = format!("{}/{}", dir, name);
    let is_dev = |p: &str| std::fs::metadata(p).map(|m| m.file_type().is_char_device()).unwrap_or(false);
    if is_dev(&path) {
        return path;
    }
    let _ = std::fs::create_dir_all(&dir);
    let _ = std::fs::remove_file(&path);
    let made = Command::new("mknod").arg("-m").arg("666").arg(&path).arg("c").arg("1").arg(minor.to_string()).stdin(Stdio::null()).stdout(Stdio::null()).stderr(Stdio::null()).status().map(|s| s.success()).unwrap_or(false);
    // a node on a file system mounted nodev exists but cannot be opened: it must behave like the system's node
    let usable = made && is_dev(&path) && match std::fs::OpenOptions::new().write(true).open(&path) {
        Ok(mut f) => {
            let wrote = f.write_all(b"x").and_then(|_| f.flush());
            if minor == 3 { wrote.is_ok() } else { wrote.is_err() }
        }
        Err(_) => false,
    };
    if usable {
        path
    } else {
        let _ = std::fs::remove_file(&path);
        format!("/dev/{}", name)
    }
}

/// The CPUs this process may run on (`Cpus_allowed_list` of /proc/self/status), narrowed to the first one or two.
/// None when the list cannot be read or `taskset` does not work here: the process then runs unpinned.
pub fn cpu_set(which: &str) -> Option<String> {
    static SETS: std::sync::OnceLock<Option<(String, String)>> = std::sync::OnceLock::new();
    let sets = SETS.get_or_init(|| {
        let status = std::fs::read_to_string("/proc/self/status").ok()?;
        let list = status.lines().find_map(|l| l.strip_prefix("Cpus_allowed_list:"))?.trim().to_string();
        let mut cpus: Vec<u32> = Vec::new();
        for part in list.split(',') {
            let mut it = part.trim().splitn(2, '-');
            let a: u32 = it.next()?.parse().ok()?;
            let b: u32 = match it.next() {
                Some(b) => b.parse().ok()?,
                None => a,
            };
            for c in a..=b.min(a + 4096) {
                cpus.push(c);
            }
        }
        let one = cpus.first()?.to_string();
        let two = match cpus.get(1) {
            Some(c) => format!("{},{}", one, c),
            None => one.clone(),
        };
        for s in [&one, &two] {
            let ok = Command::new("taskset").arg("-c").arg(s).arg("true").stdin(Stdio::null()).stdout(Stdio::null()).stderr(Stdio::null()).status().map(|s| s.success()).unwrap_or(false);
            if !ok {
                return None;
            }
        }
        Some((one, two))
    });
    sets.as_ref().map(|(one, two)| if which == "first" { one.clone() } else { two.clone() })
}

const ENVS: &[&[(&str, &str)]] = &[
    &[],
    &[("TMPDIR", "/nonexistent-tmpdir-zz"), ("SYLT_SIM_CPUS", "first")],
    &[("TMPDIR", "/dev/shm"), ("SYLT_SIM_CPUS", "first-two")],
    &[("SYLT_SIM_CWD", "/"), ("SYLT_SIM_VERBOSE", "1")],
    &[("SYLT_SIM_CWD", "out-dir")],
    &[("SYLT_SIM_CLOCK_OFFSET", "86400"), ("SYLT_SIM_SOURCE_MTIME", "978307200")],
    &[("SYLT_SIM_CLOCK_OFFSET", "1000000000"), ("TZ", "Asia/Kathmandu")],
    &[("SYLT_SIM_CLOCK_OFFSET", "-1500000000"), ("SYLT_SIM_SOURCE_MTIME", "2147483000")],
    &[("NO_COLOR", "1"), ("TERM", "dumb")],
    &[("TERM", "xterm-256color"), ("LANG", "sv_SE.UTF-8"), ("TZ", "Pacific/Kiritimati")],
    &[("RUST_BACKTRACE", "1"), ("LANG", "C")],
    &[("CLICOLOR_FORCE", "1"), ("HOME", "/nonexistent")],
    &[("SYLT_VERIF_HASH_SEED", "1")],
    &[("SYLT_VERIF_HASH_SEED", "18446744073709551615")],
];

fn c16_observe(runner: &Runner, prog: &Program, root: &str, rep: usize) -> String {
    // every compilation requires the same module name; whether a file of that name happens to exist next to
    // the sources (or is a symbolic link) is part of the environment and must not matter
    let mut cell = Cell { mode: "file".into(), require: Some("./zz_req/glue.lua".into()), no_std: false, target: "O1-absent".into(), peer: String::new(), input: "present".into(), spelling: "absolute".into(), fault: None, flags_last: false };
    let req_dir = format!("{}/zz_req", root);
    let _ = std::fs::remove_dir_all(&req_dir);
    let _ = std::fs::remove_file(&req_dir);
    match rep % 3 {
        0 => {}
        1 => {
            let _ = std::fs::create_dir_all(&req_dir);
            let _ = std::fs::write(format!("{}/glue.lua", req_dir), "return {}\n");
        }
        _ => {
            let real = format!("{}/zz_req_real_dir", root);
            let _ = std::fs::create_dir_all(&real);
            let _ = std::fs::write(format!("{}/glue.lua", real), "return {}\n");
            let _ = std::os::unix::fs::symlink(&real, &req_dir);
        }
    }
    // an empty directory named like a module, next to it (an assets folder, a build artefact): environment
    for p in prog.files.keys() {
        let real = format!("{}{}", root, p.strip_prefix(SIM_ROOT).unwrap_or(p));
        if let Some(dir) = real.strip_suffix(".sy") {
            if rep % 4 == 3 {
                let _ = std::fs::create_dir_all(dir);
            } else {
                let _ = std::fs::remove_dir(dir);
            }
        }
    }
    // ... and an empty directory named like a module that is imported but does not exist
    for (p, text) in &prog.files {
        let real = format!("{}{}", root, p.strip_prefix(SIM_ROOT).unwrap_or(p));
        let dir = match Path::new(&real).parent() {
            Some(d) => d.to_path_buf(),
            None => continue,
        };
        for line in text.lines() {
            let t = line.trim();
            if let Some(rest) = t.strip_prefix("use ").or_else(|| t.strip_prefix("from ")) {
                let name = rest.split_whitespace().next().unwrap_or("");
                if name.is_empty() || name.starts_with('/') || !name.chars().all(|ch| ch.is_ascii_alphanumeric() || ch == '_') {
                    continue;
                }
                let file = dir.join(format!("{}.sy", name));
                let d = dir.join(name);
                if !file.exists() {
                    if rep % 4 == 3 {
                        let _ = std::fs::create_dir_all(&d);
                    } else {
                        let _ = std::fs::remove_dir(&d);
                    }
                }
            }
        }
    }
    let env: Vec<(String, String)> = ENVS[rep % ENVS.len()].iter().map(|(k, v)| (k.to_string(), v.to_string())).collect();
    if rep % 3 == 2 {
        // history through the file system: the output path still holds what an earlier compilation
        // (same sources, another flag) left there
        let mut prev = cell.clone();
        prev.require = Some("zz_previous_build".into());
        let _ = runner.run_cell(prog, &prev, root, &env);
        cell.target = "O8-left-over-from-previous-compile".into();
    }
    let obs = runner.run_cell(prog, &cell, root, &env);
    let out = normalise(root, &strip_ansi(&String::from_utf8_lossy(&obs.stdout)));
    format!(
        "exit={:?}\nfile={:?}\nstdout:\n{}",
        obs.exit,
        obs.target_bytes.as_ref().map(|b| (b.len(), fnv64(b))),
        out
    )
}

/// `-o -` from three working directories (the main file named absolutely, as a bare name, through its folder)
/// with a relative `--require`: for an accepted program the bytes on stdout must be the same.
fn c16_stdout_cwd_divergence(runner: &Runner, prog: &Program, root: &str) -> Option<String> {
    let mut first: Option<(String, Vec<u8>)> = None;
    for sp in ["absolute", "bare", "relative-dir"] {
        let cell = Cell { mode: "stdout".into(), require: Some("./zz_req/glue.lua".into()), no_std: false, target: String::new(), peer: String::new(), input: "present".into(), spelling: sp.into(), fault: None, flags_last: false };
        let o = runner.run_cell(prog, &cell, root, &[]);
        if o.exit != Some(0) {
            return None;
        }
        match &first {
            None => first = Some((sp.to_string(), o.stdout)),
            Some((sp0, b0)) => {
                if *b0 != o.stdout {
                    let common = b0.iter().zip(o.stdout.iter()).take_while(|(a, b)| a == b).count();
                    return Some(format!("-o - with the main file given as {} vs as {} (another working directory): {} vs {} bytes on stdout, first difference at byte {}", sp0, sp, b0.len(), o.stdout.len(), common));
                }
            }
        }
    }
    None
}

/// Run mode against a peer that fails without reading its input, under four schedules of the two
/// processes: the peer gives up at once, or after 40, 150 or 600 ms - before, while or after sylt writes
/// the program to it. What sylt reports must not depend on who wins.
fn c16_peer_schedule_divergence(runner: &Runner, prog: &Program, root: &str) -> Option<String> {
    let cell = Cell { mode: "run".into(), require: None, no_std: false, target: String::new(), peer: "P5-fails-without-reading".into(), input: "present".into(), spelling: "absolute".into(), fault: None, flags_last: false };
    let see = |o: &ProcObs| format!("exit={:?}\n{}", o.exit, normalise(root, &strip_ansi(&String::from_utf8_lossy(&o.stdout))));
    let a = see(&runner.run_cell(prog, &cell, root, &[]));
    for delay in ["40", "150", "600"] {
        let b = see(&runner.run_cell(prog, &cell, root, &[("SYLT_SIM_LUA_DELAY_MS".to_string(), delay.to_string())]));
        if a != b {
            return Some(format!("run mode, lua fails without reading its input, at once vs after {} ms: {}", delay, crate::props::first_diff(&a, &b)));
        }
    }
    None
}

/// The reader seam of the real process: the main file arrives through a FIFO in two pieces, the cut in the middle
/// of a multi-byte character and a pause before the second piece (a short read), against the same bytes in a
/// regular file. The main file gets one extra global with a non-ASCII string so that there is such a character.
fn c16_short_read_divergence(runner: &Runner, prog: &Program, root: &str, seed: u64) -> Option<String> {
    use std::os::unix::fs::OpenOptionsExt;
    let main_real = format!("{}{}", root, prog.main.strip_prefix(SIM_ROOT).unwrap_or(&prog.main));
    let original = prog.files.get(&prog.main)?.clone();
    let text = format!("zzq_fifo_{} :: \"bl\u{e5}b\u{e4}r \u{20ac} \u{1f980}\"\n{}", seed % 1000, original);
    let cell = Cell { mode: "file".into(), require: None, no_std: false, target: "O1-absent".into(), peer: String::new(), input: "present".into(), spelling: "absolute".into(), fault: None, flags_last: false };
    let see = |o: &ProcObs| format!("exit={:?}\nfile={:?}\nstdout:\n{}", o.exit, o.target_bytes.as_ref().map(|b| (b.len(), fnv64(b))), normalise(root, &strip_ansi(&String::from_utf8_lossy(&o.stdout))));
    let restore = || {
        let _ = std::fs::remove_file(&main_real);
        let _ = std::fs::write(&main_real, &original);
    };
    let _ = std::fs::write(&main_real, &text);
    let a_obs = runner.run_cell(prog, &cell, root, &[]);
    if a_obs.exit != Some(0) {
        restore();
        return None;
    }
    let a = see(&a_obs);
    // cut inside one of the multi-byte characters of the first line
    let bytes = text.clone().into_bytes();
    let multi: Vec<usize> = (1..bytes.len().min(64)).filter(|i| bytes[*i] & 0xC0 == 0x80).collect();
    let cut = multi[(seed as usize / 7) % multi.len()];
    let _ = std::fs::remove_file(&main_real);
    let made = Command::new("mkfifo").arg(&main_real).status().map(|s| s.success()).unwrap_or(false);
    if !made {
        restore();
        return None;
    }
    let path = main_real.clone();
    let pause = [20u64, 60, 150][(seed % 3) as usize];
    let writer = std::thread::spawn(move || {
        if let Ok(mut f) = std::fs::OpenOptions::new().write(true).open(&path) {
            let _ = f.write_all(&bytes[..cut]);
            let _ = f.flush();
            std::thread::sleep(Duration::from_millis(pause));
            let _ = f.write_all(&bytes[cut..]);
        }
    });
    let b_obs = runner.run_cell(prog, &cell, root, &[]);
    // release the writer if the process never opened (or never drained) the FIFO
    if !writer.is_finished() {
        if let Ok(mut r) = std::fs::OpenOptions::new().read(true).custom_flags(0o4000).open(&main_real) {
            let mut buf = [0u8; 65536];
            let t0 = Instant::now();
            while !writer.is_finished() && t0.elapsed() < Duration::from_secs(5) {
                let _ = r.read(&mut buf);
                std::thread::sleep(Duration::from_millis(2));
            }
        }
    }
    let _ = writer.join();
    restore();
    let b = see(&b_obs);
    if a != b {
        return Some(format!("the main file read from a regular file vs through a FIFO in two pieces (cut at byte {}, inside a multi-byte character, {} ms pause): {}", cut, pause, crate::props::first_diff(&a, &b)));
    }
    None
}

fn replay_c16(doc: &J, prog: &Program, runner: &Runner, id: &str) -> i32 {
    let reps = doc.get("layer_b").map(|l| l.u64_of("repetitions")).unwrap_or(32).max(2) as usize;
    let root = runner.layout(prog, "p", false);
    let first = c16_observe(runner, prog, &root, 0);
    for k in 1..reps {
        let o = c16_observe(runner, prog, &root, k);
        if o != first {
            println!("REPRODUCED {}", id);
            println!("{}", crate::props::first_diff(&first, &o));
            println!("VIOLATION property=C16 replay=<this file>");
            return 1;
        }
    }
    if first.starts_with("exit=Some(0)") {
        if let Some(d) = c16_peer_schedule_divergence(runner, prog, &root).or_else(|| c16_stdout_cwd_divergence(runner, prog, &root)).or_else(|| (0..6).find_map(|s| c16_short_read_divergence(runner, prog, &root, doc.u64_of("index") + s))) {
            println!("REPRODUCED {}", id);
            println!("{}", d);
            println!("VIOLATION property=C16 replay=<this file>");
            return 1;
        }
    }
    println!("NOT-REPRODUCED {} ({} repetitions agreed; this replay kind is probabilistic)", id, reps);
    0
}

pub fn run_c16_processes(tier: &str, batch_seed: u64) -> LayerBResult {
    let n_programs: u64 = std::env::var("SYLT_SIM_C16_PROGRAMS").ok().and_then(|v| v.parse().ok()).unwrap_or(if tier == "quick" { 160 } else { 2_000 });
    let reps: usize = std::env::var("SYLT_SIM_C16_REPS").ok().and_then(|v| v.parse().ok()).unwrap_or(if tier == "quick" { 14 } else { 56 });
    if !Path::new(&sylt_bin()).exists() {
        let mut cov = J::obj();
        cov.put("harness.layer_b_binary_missing", J::u(1));
        return LayerBResult { coverage: cov, violations: vec![("harness/layer-b-binary-missing".into(), J::obj().set("clause", J::s("harness")).set("class", J::s("layer-b-binary-missing")).set("detail", J::s("sylt binary not built")), 1)] };
    }
    let t0 = Instant::now();
    let result: Arc<Mutex<(u64, u64, u64, BTreeMap<String, (J, u64)>)>> = Arc::new(Mutex::new((0, 0, 0, BTreeMap::new())));
    let threads = 16u64;
    let mut hs = Vec::new();
    for t in 0..threads {
        let result = result.clone();
        hs.push(std::thread::Builder::new().stack_size(256 << 20).spawn(move || {
            exec::install_panic_hook();
            let corpus = crate::corpus::load();
            let scratch = format!("{}/{}-c16b-t{}", crate::supervisor::scratch_base(), std::process::id(), t);
            let _ = std::fs::create_dir_all(&scratch);
            let runner = Runner::new(&scratch);
            let mut i = t;
            while i < n_programs {
                let seed = splitmix64(batch_seed ^ tag("C16-processes") ^ splitmix64(i));
                let mut stats = crate::props::Stats::default();
                // half of the inputs are biased to several errors, half to accepted programs (their Lua bytes are compared)
                let (sc, c) = crate::worker::gen_screened(seed, &corpus, if i % 2 == 0 { Bias::MultiError } else { Bias::Sink }, &mut stats);
                let mut files = c.files.clone();
                for p in &c.io_errors {
                    files.remove(p);
                }
                let prog = Program { files, main: c.main.clone(), label: format!("{}+{}faults", sc.family, sc.faults.len()), std_free: false };
                let root = runner.layout(&prog, "p", false);
                let first = c16_observe(&runner, &prog, &root, 0);
                let mut diverged: Option<String> = None;
                for k in 1..reps {
                    let o = c16_observe(&runner, &prog, &root, k);
                    if o != first {
                        diverged = Some(crate::props::first_diff(&first, &o));
                        break;
                    }
                }
                if diverged.is_none() && first.starts_with("exit=Some(0)") {
                    diverged = c16_peer_schedule_divergence(&runner, &prog, &root);
                }
                if diverged.is_none() && first.starts_with("exit=Some(0)") {
                    diverged = c16_stdout_cwd_divergence(&runner, &prog, &root);
                }
                if diverged.is_none() && first.starts_with("exit=Some(0)") && i % 4 == 1 {
                    diverged = c16_short_read_divergence(&runner, &prog, &root, seed);
                }
                let mut r = result.lock().unwrap();
                r.0 += 1;
                r.1 += reps as u64;
                if first.starts_with("exit=Some(1)") {
                    r.2 += 1;
                }
                if let Some(d) = diverged {
                    let vv = Violation { prop: "C16".into(), clause: "process".into(), class: "unseeded-hash-or-environment".into(), detail: format!("the same sources compiled by {} processes (real RandomState entropy, varied environment) gave different results: {}", reps, d) };
                    let mut files = J::obj();
                    for (k, t) in &prog.files {
                        files.put(k, J::s(t));
                    }
                    let doc = J::obj()
                        .set("property", J::s("C16"))
                        .set("clause", J::s(&vv.clause))
                        .set("class", J::s(&vv.class))
                        .set("detail", J::s(&vv.detail))
                        .set("verif_seed", J::u(batch_seed))
                        .set("index", J::u(i))
                        .set("minimised", J::Bool(false))
                        .set("replay_kind", J::s("repeat-N: probabilistic (hash seeds come from OS entropy)"))
                        .set("layer_b", J::obj().set("files", files).set("main", J::s(&prog.main)).set("repetitions", J::u(reps as u64 * 4)).set("program_label", J::s(&prog.label)));
                    let e = r.3.entry(vv.id()).or_insert((doc, 0));
                    e.1 += 1;
                }
                drop(r);
                i += threads;
            }
            let _ = std::fs::remove_dir_all(&scratch);
        }).unwrap());
    }
    for h in hs {
        let _ = h.join();
    }
    let r = result.lock().unwrap();
    let cov = J::obj()
        .set("add_evaluations", J::u(r.1))
        .set(
            "process_level",
            J::obj()
                .set("inputs", J::u(r.0))
                .set("process_runs", J::u(r.1))
                .set("repetitions_per_input", J::u(reps as u64))
                .set("inputs_rejected", J::u(r.2))
                .set("environments", J::u(ENVS.len() as u64))
                .set("clock_seam", J::s(if std::env::var("SYLT_SIM_CLOCK_SHIM").is_ok() { "LD_PRELOAD shim shifting clock_gettime/gettimeofday/time by +1 day, +31 years, -47 years in three of the environments; source mtimes set to 2001 and 2038 in two" } else { "not available (no C compiler): clock not varied" }))
                .set("hashing", J::s("real OS entropy per process (hook compiled in, seed unset), plus two fixed seeds via SYLT_VERIF_HASH_SEED"))
                .set("wall_s", J::Num((t0.elapsed().as_secs_f64() * 10.0).round() / 10.0)),
        );
    LayerBResult { coverage: cov, violations: r.3.iter().map(|(k, (d, n))| (k.clone(), d.clone(), *n)).collect() }
}

// ------------------------------------------------------------------------------------
// C07 at the process level: the shipped (debug-profile) binary with the stack a user gets

pub fn judge_c07_process(obs: &ProcObs) -> Option<Violation> {
    let err = String::from_utf8_lossy(&obs.stderr).to_string();
    if err.starts_with("spawn failed:") {
        return Some(Violation { prop: "C07".into(), clause: "harness".into(), class: "spawn-failed".into(), detail: err });
    }
    if obs.timed_out {
        return Some(Violation { prop: "C07".into(), clause: "process-hang".into(), class: "30s".into(), detail: "the sylt process did not terminate within 30 s".into() });
    }
    match obs.exit {
        Some(0) | Some(1) => None,
        Some(101) => {
            let at = err.lines().find(|l| l.contains("panicked at")).unwrap_or("").to_string();
            let site = at.split("panicked at ").nth(1).unwrap_or("").split(':').next().unwrap_or("").rsplit('/').next().unwrap_or("").to_string();
            Some(Violation { prop: "C07".into(), clause: "process-panic".into(), class: site, detail: format!("the sylt process panicked (exit status 101): {}", strip_thread_id(&err).lines().take(3).collect::<Vec<_>>().join(" | ")) })
        }
        Some(134) | None => {
            let class = if err.contains("overflowed its stack") { "stack-overflow" } else { "abort" };
            Some(Violation { prop: "C07".into(), clause: "process-abort".into(), class: class.into(), detail: format!("the sylt process was aborted ({:?}): {}", obs.exit, strip_thread_id(&err).lines().filter(|l| !l.trim().is_empty()).take(2).collect::<Vec<_>>().join(" | ")) })
        }
        Some(c) => Some(Violation { prop: "C07".into(), clause: "process-exit".into(), class: format!("{}", c), detail: format!("unexpected exit status {}", c) }),
    }
}

pub fn run_c07_processes(tier: &str, batch_seed: u64) -> LayerBResult {
    let n_programs: u64 = std::env::var("SYLT_SIM_C07_PROGRAMS").ok().and_then(|v| v.parse().ok()).unwrap_or(if tier == "quick" { 1_200 } else { 60_000 });
    if !Path::new(&sylt_bin()).exists() {
        let mut cov = J::obj();
        cov.put("harness.layer_b_binary_missing", J::u(1));
        return LayerBResult { coverage: cov, violations: vec![("harness/layer-b-binary-missing".into(), J::obj().set("clause", J::s("harness")).set("class", J::s("layer-b-binary-missing")).set("detail", J::s("sylt binary not built")), 1)] };
    }
    let t0 = Instant::now();
    // (programs, rejected, many-errors programs, violations)
    let result: Arc<Mutex<(u64, u64, u64, BTreeMap<String, (J, u64)>, BTreeMap<String, u64>)>> = Arc::new(Mutex::new((0, 0, 0, BTreeMap::new(), BTreeMap::new())));
    let threads = 16u64;
    let mut hs = Vec::new();
    for t in 0..threads {
        let result = result.clone();
        hs.push(std::thread::Builder::new().stack_size(256 << 20).spawn(move || {
            exec::install_panic_hook();
            let corpus = crate::corpus::load();
            let scratch = format!("{}/{}-c07b-t{}", crate::supervisor::scratch_base(), std::process::id(), t);
            let _ = std::fs::create_dir_all(&scratch);
            let runner = Runner::new(&scratch);
            let mut i = t;
            while i < n_programs {
                // every hanging process costs 30 s: after a few the point is made
                if result.lock().unwrap().3.get("process-hang/30s").map(|(_, n)| *n).unwrap_or(0) >= 6 {
                    break;
                }
                let seed = splitmix64(batch_seed ^ tag("C07-processes") ^ splitmix64(i));
                let (prog, no_std, many) = if i % 4 == 1 {
                    let k = (i / 4) as usize;
                    (many_errors_program(ERROR_COUNTS[k % ERROR_COUNTS.len()], k + k / ERROR_COUNTS.len()), k % 3 == 0, true)
                } else {
                    let mut stats = crate::props::Stats::default();
                    let (sc, c) = crate::worker::gen_screened(seed, &corpus, Bias::General, &mut stats);
                    let mut files = c.files.clone();
                    for p in &c.io_errors {
                        files.remove(p);
                    }
                    (Program { files, main: c.main.clone(), label: format!("{}+{}faults", sc.family, sc.faults.len()), std_free: false }, c.no_std, false)
                };
                let root = runner.layout(&prog, "p", false);
                let spelling = ["absolute", "bare", "dot-slash", "relative-dir"][((i / 4 + i) % 4) as usize];
                // every eighth program also meets a system-call fault while its sources are opened or read
                let fault = if i % 8 == 3 && strace_injection_works() {
                    let other: Option<String> = prog.files.keys().find(|k| **k != prog.main).cloned();
                    let k = (i / 8) % 8;
                    let on = if k >= 4 { other.unwrap_or_else(|| "main".to_string()) } else { "main".to_string() };
                    let (syscall, error) = [("read", "EINTR"), ("read", "EIO"), ("openat", "EACCES"), ("openat", "EMFILE"), ("read", "EIO"), ("openat", "ENOENT"), ("openat", "EINTR"), ("read", "EINTR")][k as usize];
                    Some(SyscallFault { syscall: syscall.into(), error: error.into(), when: 1, on })
                } else {
                    None
                };
                if let Some(f) = &fault {
                    *result.lock().unwrap().4.entry(format!("syscall fault {}", f.label())).or_insert(0) += 1;
                }
                let spelling = if fault.is_some() { "absolute" } else { spelling };
                // every eighth program is *run*: the driver's dialogue with its peer must terminate too
                let (mode, target, peer) = if i % 8 == 6 {
                    ("run", "", ["P2b-long-stderr-exit1", "P5-fails-without-reading", "P1s-slow-reader", "P1-ok"][((i / 8) % 4) as usize])
                } else {
                    ("file", "O1-absent", "")
                };
                let cell = Cell { mode: mode.into(), require: None, no_std, target: target.into(), peer: peer.into(), input: "present".into(), spelling: spelling.into(), fault, flags_last: false };
                let obs = runner.run_cell(&prog, &cell, &root, &[]);
                let mut verdict = judge_c07_process(&obs);
                let strict = prog.files.values().map(|t| gen::nesting_depth_strict(t)).max().unwrap_or(0);
                let mut outside = false;
                if let Some(vv) = &verdict {
                    // the property bounds nesting so that native stack depth is not what is measured:
                    // an overflow on input whose openers are never closed is outside its quantifier
                    if vv.class == "stack-overflow" && strict > gen::MAX_NESTING {
                        outside = true;
                        verdict = None;
                    }
                }
                let mut r = result.lock().unwrap();
                if outside {
                    *r.4.entry("(stack overflow on input nested deeper than the bound: not judged)".to_string()).or_insert(0) += 1;
                }
                r.0 += 1;
                if obs.exit == Some(1) {
                    r.1 += 1;
                }
                if many {
                    r.2 += 1;
                    *r.4.entry(prog.label.split('x').nth(1).unwrap_or("?").to_string()).or_insert(0) += 1;
                }
                if let Some(vv) = verdict {
                    if vv.clause == "harness" {
                        r.3.entry("harness/spawn-failed".into()).or_insert((J::obj().set("clause", J::s("harness")).set("class", J::s("spawn-failed")).set("detail", J::s(&vv.detail)), 0)).1 += 1;
                        drop(r);
                        i += threads;
                        continue;
                    }
                    let mut doc = layer_b_doc("C07", &vv, &prog, &cell, &obs, &root, batch_seed, i);
                    if let Some(J::Obj(m)) = doc.get("layer_b").cloned() {
                        let mut lb = J::Obj(m);
                        lb.put("no_std", J::Bool(no_std));
                        doc.put("layer_b", lb);
                    }
                    match r.3.get_mut(&vv.id()) {
                        Some((old, n)) => {
                            *n += 1;
                            // prefer the smallest input as the representative
                            let size = |d: &J| d.get("layer_b").and_then(|l| l.get("files")).and_then(|f| f.as_obj()).map(|o| o.values().map(|v| v.as_str().unwrap_or("").len()).sum::<usize>()).unwrap_or(usize::MAX);
                            if size(&doc) < size(old) {
                                *old = doc;
                            }
                        }
                        None => {
                            r.3.insert(vv.id(), (doc, 1));
                        }
                    }
                }
                drop(r);
                i += threads;
            }
            let _ = std::fs::remove_dir_all(&scratch);
        }).unwrap());
    }
    for h in hs {
        let _ = h.join();
    }
    let r = result.lock().unwrap();
    let mut units = J::obj();
    for (k, n) in &r.4 {
        units.put(k, J::u(*n));
    }
    let cov = J::obj().set("add_evaluations", J::u(r.0)).set(
        "process_level",
        J::obj()
            .set("programs", J::u(r.0))
            .set("rejected", J::u(r.1))
            .set("many_errors_programs", J::u(r.2))
            .set("many_errors_units", units)
            .set("error_counts", J::Arr(ERROR_COUNTS.iter().map(|c| J::u(*c as u64)).collect()))
            .set("binary", J::s(&format!("{} (dev profile as the project's Makefile ships it, main-thread stack of the OS default 8 MiB)", sylt_bin())))
            .set("wall_s", J::Num((t0.elapsed().as_secs_f64() * 10.0).round() / 10.0)),
    );
    LayerBResult { coverage: cov, violations: r.3.iter().map(|(k, (d, n))| (k.clone(), d.clone(), *n)).collect() }
}

/// Shrinks the program of a process-level C07 finding (exit status oracle) by re-running the real binary.
pub fn minimise_c07_process_doc(doc: &J, id: &str, budget: usize) -> J {
    let lb = match doc.get("layer_b") {
        Some(l) => l.clone(),
        None => return doc.clone(),
    };
    let mut start = Concrete::new(&lb.str_of("main"));
    if let Some(o) = lb.get("files").and_then(|f| f.as_obj()) {
        for (k, t) in o {
            start.files.insert(k.clone(), t.as_str().unwrap_or("").to_string());
        }
    }
    let cell = Cell::from_json(lb.get("cell").unwrap_or(&J::obj()));
    let scratch = format!("{}/{}-minb", crate::supervisor::scratch_base(), std::process::id());
    let _ = std::fs::create_dir_all(&scratch);
    let runner = Runner::new(&scratch);
    let test = |c: &Concrete| -> bool {
        if !c.files.contains_key(&c.main) {
            return false;
        }
        let prog = Program { files: c.files.clone(), main: c.main.clone(), label: String::new(), std_free: false };
        // a stack overflow only counts while the input stays within the nesting bound
        let strict = prog.files.values().map(|t| gen::nesting_depth_strict(t)).max().unwrap_or(0);
        let root = runner.layout(&prog, "m", false);
        let obs = runner.run_cell(&prog, &cell, &root, &[]);
        match judge_c07_process(&obs) {
            Some(v) => v.id() == id && !(v.class == "stack-overflow" && strict > gen::MAX_NESTING),
            None => false,
        }
    };
    if !test(&start) {
        let _ = std::fs::remove_dir_all(&scratch);
        return doc.clone();
    }
    let (min, used) = crate::minimise::minimise(&start, None, &test, budget);
    let _ = std::fs::remove_dir_all(&scratch);
    let mut files = J::obj();
    for (k, t) in &min.files {
        files.put(k, J::s(t));
    }
    let mut lb2 = lb;
    lb2.put("files", files);
    let mut d = doc.clone();
    d.put("layer_b", lb2);
    d.put("minimised", J::Bool(true));
    d.put("minimiser_executions", J::u(used as u64));
    d
}

// ------------------------------------------------------------------------------------
// C12 at the process level: generated projects through the real file reader (`sylt::read_file`),
// with module files that are symbolic links and with the main file named in four ways

pub fn run_c12_processes(tier: &str, batch_seed: u64) -> LayerBResult {
    let n_programs: u64 = std::env::var("SYLT_SIM_C12_PROGRAMS").ok().and_then(|v| v.parse().ok()).unwrap_or(if tier == "quick" { 400 } else { 20_000 });
    if !Path::new(&sylt_bin()).exists() {
        let mut cov = J::obj();
        cov.put("harness.layer_b_binary_missing", J::u(1));
        return LayerBResult { coverage: cov, violations: vec![("harness/layer-b-binary-missing".into(), J::obj().set("clause", J::s("harness")).set("class", J::s("layer-b-binary-missing")).set("detail", J::s("sylt binary not built")), 1)] };
    }
    let t0 = Instant::now();
    // (programs, accepted as expected, rejected as expected, symlinked, violations)
    let result: Arc<Mutex<(u64, u64, u64, u64, BTreeMap<String, (J, u64)>)>> = Arc::new(Mutex::new((0, 0, 0, 0, BTreeMap::new())));
    let threads = 16u64;
    let mut hs = Vec::new();
    for t in 0..threads {
        let result = result.clone();
        hs.push(std::thread::Builder::new().stack_size(64 << 20).spawn(move || {
            let scratch = format!("{}/{}-c12b-t{}", crate::supervisor::scratch_base(), std::process::id(), t);
            let _ = std::fs::create_dir_all(&scratch);
            let runner = Runner::new(&scratch);
            let mut i = t;
            while i < n_programs {
                let seed = splitmix64(batch_seed ^ tag("C12-processes") ^ splitmix64(i));
                let (p, c) = crate::c12::build(seed);
                let prog = Program { files: c.files.clone(), main: c.main.clone(), label: p.describe(), std_free: true };
                let root = runner.layout(&prog, "p", false);
                // every third project: the module files are symbolic links to files kept elsewhere
                let symlinked = i % 3 == 1;
                if symlinked {
                    let vendor = format!("{}/vendor-store", root);
                    let _ = std::fs::create_dir_all(&vendor);
                    for (k, path) in prog.files.keys().enumerate() {
                        if *path == prog.main && i % 2 == 0 {
                            continue;
                        }
                        let real = format!("{}{}", root, path.strip_prefix(SIM_ROOT).unwrap_or(path));
                        let stored = format!("{}/f{}.sy", vendor, k);
                        if std::fs::rename(&real, &stored).is_ok() {
                            let _ = std::os::unix::fs::symlink(&stored, &real);
                        }
                    }
                }
                let cell = Cell { mode: "file".into(), require: None, no_std: c.no_std, target: "O1-absent".into(), peer: String::new(), input: "present".into(), spelling: c.main_spelling.clone(), fault: None, flags_last: false };
                let obs = runner.run_cell(&prog, &cell, &root, &[]);
                let want = if p.expect_ok { 0 } else { 1 };
                let mut r = result.lock().unwrap();
                r.0 += 1;
                if symlinked {
                    r.3 += 1;
                }
                if obs.exit == Some(want) {
                    if want == 0 {
                        r.1 += 1;
                    } else {
                        r.2 += 1;
                    }
                } else {
                    let out = normalise(&root, &strip_ansi(&String::from_utf8_lossy(&obs.stdout)));
                    let first = out.lines().find(|l| !l.trim().is_empty()).unwrap_or("").to_string();
                    let vv = Violation {
                        prop: "C12".into(),
                        clause: "process-verdict".into(),
                        class: if want == 0 { "valid-project-rejected-by-the-binary".into() } else { "invalid-reference-accepted-by-the-binary".into() },
                        detail: format!("the sylt binary exits with {:?} on a generated project that the import rules {} (main given as {}, module files {}): {}", obs.exit, if want == 0 { "accept" } else { "reject" }, c.main_spelling, if symlinked { "are symbolic links" } else { "are regular files" }, first),
                    };
                    let mut doc = layer_b_doc("C12", &vv, &prog, &cell, &obs, &root, batch_seed, i);
                    if let Some(J::Obj(mm)) = doc.get("layer_b").cloned() {
                        let mut lb = J::Obj(mm);
                        lb.put("symlinked", J::Bool(symlinked));
                        lb.put("expect_exit", J::u(want as u64));
                        lb.put("main_kept_regular", J::Bool(i % 2 == 0));
                        doc.put("layer_b", lb);
                    }
                    let e = r.4.entry(vv.id()).or_insert((doc, 0));
                    e.1 += 1;
                }
                drop(r);
                i += threads;
            }
            let _ = std::fs::remove_dir_all(&scratch);
        }).unwrap());
    }
    for h in hs {
        let _ = h.join();
    }
    let r = result.lock().unwrap();
    let cov = J::obj().set("add_evaluations", J::u(r.0)).set(
        "process_level",
        J::obj()
            .set("projects", J::u(r.0))
            .set("accepted_as_the_model_expects", J::u(r.1))
            .set("rejected_as_the_model_expects", J::u(r.2))
            .set("projects_with_symlinked_module_files", J::u(r.3))
            .set("reader", J::s("the real sylt::read_file on real files, through the real binary"))
            .set("wall_s", J::Num((t0.elapsed().as_secs_f64() * 10.0).round() / 10.0)),
    );
    LayerBResult { coverage: cov, violations: r.4.iter().map(|(k, (d, n))| (k.clone(), d.clone(), *n)).collect() }
}

pub fn replay_c12_process(doc: &J, prog: &Program, runner: &Runner, id: &str) -> i32 {
    let lb = doc.get("layer_b").cloned().unwrap_or(J::obj());
    let root = runner.layout(prog, "p", false);
    if lb.bool_of("symlinked") {
        let vendor = format!("{}/vendor-store", root);
        let _ = std::fs::create_dir_all(&vendor);
        for (k, path) in prog.files.keys().enumerate() {
            if *path == prog.main && lb.bool_of("main_kept_regular") {
                continue;
            }
            let real = format!("{}{}", root, path.strip_prefix(SIM_ROOT).unwrap_or(path));
            let stored = format!("{}/f{}.sy", vendor, k);
            if std::fs::rename(&real, &stored).is_ok() {
                let _ = std::os::unix::fs::symlink(&stored, &real);
            }
        }
    }
    let cell = Cell::from_json(lb.get("cell").unwrap_or(&J::obj()));
    let obs = runner.run_cell(prog, &cell, &root, &[]);
    print!("{}", obs.history(&root));
    let want = lb.u64_of("expect_exit") as i32;
    if obs.exit != Some(want) {
        println!("REPRODUCED {}", id);
        println!("exit status {:?}, the import rules say {}", obs.exit, want);
        println!("VIOLATION property=C12 replay=<this file>");
        1
    } else {
        println!("NOT-REPRODUCED {}", id);
        0
    }
}
