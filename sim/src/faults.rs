//! Storage and reader faults, applied to a scenario's file map before the run:
//! what a crashed editor, a torn or lost write, a bad merge or bit-rot leave behind.
//! All positions are clamped, so a fault list stays applicable while it is minimised.

use crate::scenario::{Concrete, Fault};

fn byte_at(s: &str, chars: usize) -> usize {
    s.char_indices().nth(chars).map(|(i, _)| i).unwrap_or(s.len())
}

fn split_lines(s: &str) -> Vec<&str> {
    // keeps line terminators attached so that join is the identity
    let mut out = Vec::new();
    let mut start = 0;
    for (i, b) in s.bytes().enumerate() {
        if b == b'\n' {
            out.push(&s[start..=i]);
            start = i + 1;
        }
    }
    if start < s.len() {
        out.push(&s[start..]);
    }
    out
}

fn ensure_nl(s: &str) -> String {
    if s.is_empty() || s.ends_with('\n') {
        s.to_string()
    } else {
        format!("{}\n", s)
    }
}

pub fn apply(c: &mut Concrete, f: &Fault) {
    match f {
        Fault::Remove { file } => {
            c.files.remove(file);
            return;
        }
        Fault::IoErr { file } => {
            if !c.io_errors.contains(file) {
                c.io_errors.push(file.clone());
            }
            return;
        }
        _ => {}
    }
    let text = match c.files.get(f.file()) {
        Some(t) => t.clone(),
        None => return,
    };
    let new = apply_text(&text, f);
    c.files.insert(f.file().to_string(), new);
}

pub fn apply_text(text: &str, f: &Fault) -> String {
    match f {
        Fault::TruncChar { at, .. } => text[..byte_at(text, *at)].to_string(),
        Fault::TruncLine { line, .. } => {
            let ls = split_lines(text);
            ls[..(*line).min(ls.len())].concat()
        }
        Fault::ReplaceChar { at, ch, .. } => {
            let b = byte_at(text, *at);
            if b >= text.len() {
                return text.to_string();
            }
            let old = text[b..].chars().next().unwrap();
            format!("{}{}{}", &text[..b], ch, &text[b + old.len_utf8()..])
        }
        Fault::InsertChar { at, ch, .. } => {
            let b = byte_at(text, *at);
            format!("{}{}{}", &text[..b], ch, &text[b..])
        }
        Fault::DeleteChar { at, .. } => {
            let b = byte_at(text, *at);
            if b >= text.len() {
                return text.to_string();
            }
            let old = text[b..].chars().next().unwrap();
            format!("{}{}", &text[..b], &text[b + old.len_utf8()..])
        }
        Fault::Splice { at, tail, .. } => format!("{}{}", &text[..byte_at(text, *at)], tail),
        Fault::DropLines { line, n, .. } => {
            let ls = split_lines(text);
            let a = (*line).min(ls.len());
            let b = (a + n).min(ls.len());
            format!("{}{}", ls[..a].concat(), ls[b..].concat())
        }
        Fault::DupLines { line, n, to, .. } => {
            let ls = split_lines(text);
            let a = (*line).min(ls.len());
            let b = (a + n).min(ls.len());
            let block = ensure_nl(&ls[a..b].concat());
            let t = (*to).min(ls.len());
            format!("{}{}{}", ensure_nl(&ls[..t].concat()), block, ls[t..].concat())
        }
        Fault::MoveLines { line, n, to, .. } => {
            let ls = split_lines(text);
            let a = (*line).min(ls.len());
            let b = (a + n).min(ls.len());
            let block = ensure_nl(&ls[a..b].concat());
            let mut rest: Vec<&str> = Vec::new();
            rest.extend_from_slice(&ls[..a]);
            rest.extend_from_slice(&ls[b..]);
            let t = (*to).min(rest.len());
            format!("{}{}{}", ensure_nl(&rest[..t].concat()), block, rest[t..].concat())
        }
        Fault::InsertLines { at, text: ins, .. } => {
            let ls = split_lines(text);
            let t = (*at).min(ls.len());
            format!("{}{}{}", ensure_nl(&ls[..t].concat()), ensure_nl(ins), ls[t..].concat())
        }
        Fault::ReplaceLines { line, n, text: ins, .. } => {
            let ls = split_lines(text);
            let a = (*line).min(ls.len());
            let b = (a + n).min(ls.len());
            format!("{}{}{}", ensure_nl(&ls[..a].concat()), ensure_nl(ins), ls[b..].concat())
        }
        Fault::ReplaceRange { at, len, text: ins, .. } => {
            let a = byte_at(text, *at);
            let b = byte_at(text, at + len);
            format!("{}{}{}", &text[..a], ins, &text[b..])
        }
        Fault::Reflow { positions, indent, .. } => {
            let mut out = String::with_capacity(text.len() + positions.len() * (indent + 1));
            for (i, ch) in text.chars().enumerate() {
                if ch == ' ' && positions.contains(&i) {
                    out.push('\n');
                    for _ in 0..*indent {
                        out.push(' ');
                    }
                } else {
                    out.push(ch);
                }
            }
            out
        }
        Fault::Empty { .. } => String::new(),
        Fault::Crlf { .. } => text.replace("\r\n", "\n").replace('\n', "\r\n"),
        Fault::Remove { .. } | Fault::IoErr { .. } => text.to_string(),
    }
}

pub fn line_count(s: &str) -> usize {
    split_lines(s).len()
}

pub fn lines_of(s: &str) -> Vec<&str> {
    split_lines(s)
}
