//! Minimal JSON value, writer and parser (no external crates: nothing can be fetched here).

use std::collections::BTreeMap;
use std::fmt::Write;

#[derive(Clone, Debug, PartialEq)]
pub enum J {
    Null,
    Bool(bool),
    Int(i64),
    /// u64 values that do not fit an i64 are written as strings by the callers.
    Num(f64),
    Str(String),
    Arr(Vec<J>),
    Obj(BTreeMap<String, J>),
}

impl J {
    pub fn obj() -> J {
        J::Obj(BTreeMap::new())
    }
    pub fn set(mut self, k: &str, v: J) -> J {
        if let J::Obj(m) = &mut self {
            m.insert(k.to_string(), v);
        }
        self
    }
    pub fn put(&mut self, k: &str, v: J) {
        if let J::Obj(m) = self {
            m.insert(k.to_string(), v);
        }
    }
    pub fn s(v: &str) -> J {
        J::Str(v.to_string())
    }
    pub fn u(v: u64) -> J {
        if v <= i64::MAX as u64 {
            J::Int(v as i64)
        } else {
            J::Str(format!("u64:{}", v))
        }
    }
    pub fn get(&self, k: &str) -> Option<&J> {
        match self {
            J::Obj(m) => m.get(k),
            _ => None,
        }
    }
    pub fn as_str(&self) -> Option<&str> {
        match self {
            J::Str(s) => Some(s),
            _ => None,
        }
    }
    pub fn as_u64(&self) -> Option<u64> {
        match self {
            J::Int(i) if *i >= 0 => Some(*i as u64),
            J::Str(s) => s.strip_prefix("u64:").and_then(|x| x.parse().ok()),
            J::Num(f) if *f >= 0.0 => Some(*f as u64),
            _ => None,
        }
    }
    pub fn as_i64(&self) -> Option<i64> {
        match self {
            J::Int(i) => Some(*i),
            J::Num(f) => Some(*f as i64),
            _ => None,
        }
    }
    pub fn as_bool(&self) -> Option<bool> {
        match self {
            J::Bool(b) => Some(*b),
            _ => None,
        }
    }
    pub fn as_arr(&self) -> Option<&Vec<J>> {
        match self {
            J::Arr(a) => Some(a),
            _ => None,
        }
    }
    pub fn as_obj(&self) -> Option<&BTreeMap<String, J>> {
        match self {
            J::Obj(a) => Some(a),
            _ => None,
        }
    }
    pub fn str_of(&self, k: &str) -> String {
        self.get(k).and_then(|v| v.as_str()).unwrap_or("").to_string()
    }
    pub fn u64_of(&self, k: &str) -> u64 {
        self.get(k).and_then(|v| v.as_u64()).unwrap_or(0)
    }
    pub fn bool_of(&self, k: &str) -> bool {
        self.get(k).and_then(|v| v.as_bool()).unwrap_or(false)
    }

    pub fn to_string(&self) -> String {
        let mut s = String::new();
        self.write(&mut s, None, 0);
        s
    }
    pub fn to_pretty(&self) -> String {
        let mut s = String::new();
        self.write(&mut s, Some(1), 0);
        s.push('\n');
        s
    }

    fn write(&self, out: &mut String, indent: Option<usize>, depth: usize) {
        let nl = |out: &mut String, d: usize| {
            if let Some(n) = indent {
                out.push('\n');
                for _ in 0..(n * d) {
                    out.push(' ');
                }
            }
        };
        match self {
            J::Null => out.push_str("null"),
            J::Bool(b) => out.push_str(if *b { "true" } else { "false" }),
            J::Int(i) => {
                let _ = write!(out, "{}", i);
            }
            J::Num(f) => {
                if f.is_finite() {
                    let _ = write!(out, "{}", f);
                    if f.fract() == 0.0 && !format!("{}", f).contains(['e', '.']) {
                        out.push_str(".0");
                    }
                } else {
                    out.push_str("null");
                }
            }
            J::Str(s) => write_str(out, s),
            J::Arr(a) => {
                out.push('[');
                for (i, v) in a.iter().enumerate() {
                    if i > 0 {
                        out.push(',');
                    }
                    nl(out, depth + 1);
                    v.write(out, indent, depth + 1);
                }
                if !a.is_empty() {
                    nl(out, depth);
                }
                out.push(']');
            }
            J::Obj(m) => {
                out.push('{');
                for (i, (k, v)) in m.iter().enumerate() {
                    if i > 0 {
                        out.push(',');
                    }
                    nl(out, depth + 1);
                    write_str(out, k);
                    out.push(':');
                    if indent.is_some() {
                        out.push(' ');
                    }
                    v.write(out, indent, depth + 1);
                }
                if !m.is_empty() {
                    nl(out, depth);
                }
                out.push('}');
            }
        }
    }

    pub fn parse(s: &str) -> Result<J, String> {
        let mut p = P { b: s.as_bytes(), i: 0 };
        p.ws();
        let v = p.value()?;
        p.ws();
        if p.i != p.b.len() {
            return Err(format!("trailing data at {}", p.i));
        }
        Ok(v)
    }
}

fn write_str(out: &mut String, s: &str) {
    out.push('"');
    for c in s.chars() {
        match c {
            '"' => out.push_str("\\\""),
            '\\' => out.push_str("\\\\"),
            '\n' => out.push_str("\\n"),
            '\r' => out.push_str("\\r"),
            '\t' => out.push_str("\\t"),
            c if (c as u32) < 0x20 || c == '\u{7f}' => {
                let _ = write!(out, "\\u{:04x}", c as u32);
            }
            c => out.push(c),
        }
    }
    out.push('"');
}

struct P<'a> {
    b: &'a [u8],
    i: usize,
}

impl<'a> P<'a> {
    fn ws(&mut self) {
        while self.i < self.b.len() && matches!(self.b[self.i], b' ' | b'\n' | b'\r' | b'\t') {
            self.i += 1;
        }
    }
    fn value(&mut self) -> Result<J, String> {
        if self.i >= self.b.len() {
            return Err("eof".into());
        }
        match self.b[self.i] {
            b'n' => self.lit("null", J::Null),
            b't' => self.lit("true", J::Bool(true)),
            b'f' => self.lit("false", J::Bool(false)),
            b'"' => Ok(J::Str(self.string()?)),
            b'[' => {
                self.i += 1;
                let mut a = Vec::new();
                self.ws();
                if self.peek() == Some(b']') {
                    self.i += 1;
                    return Ok(J::Arr(a));
                }
                loop {
                    self.ws();
                    a.push(self.value()?);
                    self.ws();
                    match self.peek() {
                        Some(b',') => self.i += 1,
                        Some(b']') => {
                            self.i += 1;
                            return Ok(J::Arr(a));
                        }
                        _ => return Err(format!("bad array at {}", self.i)),
                    }
                }
            }
            b'{' => {
                self.i += 1;
                let mut m = BTreeMap::new();
                self.ws();
                if self.peek() == Some(b'}') {
                    self.i += 1;
                    return Ok(J::Obj(m));
                }
                loop {
                    self.ws();
                    let k = self.string()?;
                    self.ws();
                    if self.peek() != Some(b':') {
                        return Err(format!("expected : at {}", self.i));
                    }
                    self.i += 1;
                    self.ws();
                    let v = self.value()?;
                    m.insert(k, v);
                    self.ws();
                    match self.peek() {
                        Some(b',') => self.i += 1,
                        Some(b'}') => {
                            self.i += 1;
                            return Ok(J::Obj(m));
                        }
                        _ => return Err(format!("bad object at {}", self.i)),
                    }
                }
            }
            _ => self.number(),
        }
    }
    fn peek(&self) -> Option<u8> {
        self.b.get(self.i).copied()
    }
    fn lit(&mut self, w: &str, v: J) -> Result<J, String> {
        if self.b[self.i..].starts_with(w.as_bytes()) {
            self.i += w.len();
            Ok(v)
        } else {
            Err(format!("bad literal at {}", self.i))
        }
    }
    fn number(&mut self) -> Result<J, String> {
        let st = self.i;
        while self.i < self.b.len()
            && matches!(self.b[self.i], b'0'..=b'9' | b'-' | b'+' | b'.' | b'e' | b'E')
        {
            self.i += 1;
        }
        let t = std::str::from_utf8(&self.b[st..self.i]).map_err(|e| e.to_string())?;
        if let Ok(i) = t.parse::<i64>() {
            Ok(J::Int(i))
        } else {
            t.parse::<f64>().map(J::Num).map_err(|_| format!("bad number {:?} at {}", t, st))
        }
    }
    fn string(&mut self) -> Result<String, String> {
        if self.peek() != Some(b'"') {
            return Err(format!("expected string at {}", self.i));
        }
        self.i += 1;
        let mut out: Vec<u8> = Vec::new();
        loop {
            let c = *self.b.get(self.i).ok_or("eof in string")?;
            self.i += 1;
            match c {
                b'"' => break,
                b'\\' => {
                    let e = *self.b.get(self.i).ok_or("eof in escape")?;
                    self.i += 1;
                    match e {
                        b'n' => out.push(b'\n'),
                        b'r' => out.push(b'\r'),
                        b't' => out.push(b'\t'),
                        b'b' => out.push(8),
                        b'f' => out.push(12),
                        b'u' => {
                            let mut cp = self.hex4()?;
                            if (0xd800..0xdc00).contains(&cp) && self.b[self.i..].starts_with(b"\\u") {
                                self.i += 2;
                                let lo = self.hex4()?;
                                cp = 0x10000 + ((cp - 0xd800) << 10) + lo.wrapping_sub(0xdc00);
                            }
                            let ch = char::from_u32(cp).unwrap_or('\u{fffd}');
                            let mut buf = [0u8; 4];
                            out.extend_from_slice(ch.encode_utf8(&mut buf).as_bytes());
                        }
                        other => out.push(other),
                    }
                }
                c => out.push(c),
            }
        }
        String::from_utf8(out).map_err(|e| e.to_string())
    }
    fn hex4(&mut self) -> Result<u32, String> {
        let t = std::str::from_utf8(self.b.get(self.i..self.i + 4).ok_or("eof in \\u")?)
            .map_err(|e| e.to_string())?;
        self.i += 4;
        u32::from_str_radix(t, 16).map_err(|e| e.to_string())
    }
}

pub fn arr_str<I: IntoIterator<Item = S>, S: AsRef<str>>(it: I) -> J {
    J::Arr(it.into_iter().map(|s| J::s(s.as_ref())).collect())
}
