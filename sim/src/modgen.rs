//! Module-project generator and reference model (stub, replaced below).
use crate::scenario::{Concrete, SIM_ROOT};

pub struct Project {
    pub concrete: Concrete,
}

impl Project {
    pub fn extra_json(&self) -> crate::json::J {
        crate::json::J::obj()
    }
    pub fn describe(&self) -> String {
        "stub".into()
    }
}

pub fn generate(_seed: u64) -> Project {
    let main = format!("{}/p/main.sy", SIM_ROOT);
    let mut c = Concrete::new(&main);
    c.files.insert(main, "use b\nstart :: fn do\n    x: int = b.v\nend\n".into());
    c.files.insert(format!("{}/p/b.sy", SIM_ROOT), "v :: 1\n".into());
    Project { concrete: c }
}
