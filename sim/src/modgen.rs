//! Generated module projects and the reference model of the module system.
//!
//! The model is written from docs/guide.adoc §Imports (not from the implementation):
//!   * `use p` / `from p use ..`: p is relative to the directory of the importing file;
//!     a leading `/` makes it relative to the directory of the file being run;
//!     a trailing `/` imports `exports.sy` of that directory; `/` alone is the root's exports.sy.
//!   * `use p` binds the last path segment as a namespace, `use p as n` binds `n` (only);
//!     `from p use x [as y]` binds x (or only y) to p's global x.
//!   * every file is loaded once; cycles are fine; a name that was not imported is not visible.

use crate::json::J;
use crate::rng::Rng;
use crate::scenario::{Concrete, SIM_ROOT};
use std::collections::{BTreeMap, BTreeSet};

pub const PROJECT_DIR: &str = "/simfs/p";

#[derive(Clone, Debug, PartialEq)]
pub enum Ty {
    Int,
    Float,
    Str,
    Bool,
    /// (defining module, blob name, field type)
    Blob(usize, String, Box<Ty>),
    /// (defining module, enum name, payload type of variant `Ka`; `Kb` has none)
    Enum(usize, String, Box<Ty>),
}

impl Ty {
    fn prim(i: usize) -> Ty {
        match i % 4 {
            0 => Ty::Int,
            1 => Ty::Float,
            2 => Ty::Str,
            _ => Ty::Bool,
        }
    }
    fn name(&self) -> &'static str {
        match self {
            Ty::Int => "int",
            Ty::Float => "float",
            Ty::Str => "str",
            Ty::Bool => "bool",
            Ty::Blob(..) => "blob",
            Ty::Enum(..) => "enum",
        }
    }
    fn literal(&self, k: usize) -> String {
        match self {
            Ty::Int => format!("{}", 1 + k),
            Ty::Float => format!("{}.5", k),
            Ty::Str => format!("\"s{}\"", k),
            Ty::Bool => (if k % 2 == 0 { "true" } else { "false" }).to_string(),
            Ty::Blob(..) | Ty::Enum(..) => unreachable!(),
        }
    }
    fn other_prim(&self) -> Ty {
        match self {
            Ty::Int => Ty::Str,
            Ty::Float => Ty::Bool,
            Ty::Str => Ty::Int,
            Ty::Bool => Ty::Float,
            Ty::Blob(..) | Ty::Enum(..) => Ty::Int,
        }
    }
}

#[derive(Clone, Debug)]
pub struct Global {
    pub name: String,
    pub ty: Ty,
    /// full declaration text in the multi-file form
    pub init: String,
    /// literal initialiser (None for types and copies)
    pub lit: Option<String>,
    /// the (module, global) whose value this global copies, if any
    pub copies: Option<(usize, String)>,
    pub is_type: bool,
    /// a function of no arguments returning `ty`
    pub is_fn: bool,
}

#[derive(Clone, Debug)]
pub enum ImportKind {
    Use { alias: Option<String> },
    From { items: Vec<(String, Option<String>)>, paren: bool },
}

#[derive(Clone, Debug)]
pub struct Import {
    pub target: usize,
    /// the path as written after `use` / `from`
    pub spec: String,
    pub kind: ImportKind,
}

impl Import {
    pub fn line(&self) -> String {
        match &self.kind {
            ImportKind::Use { alias: None } => format!("use {}", self.spec),
            ImportKind::Use { alias: Some(a) } => format!("use {} as {}", self.spec, a),
            ImportKind::From { items, paren } => {
                let its: Vec<String> = items
                    .iter()
                    .map(|(n, a)| match a {
                        Some(a) => format!("{} as {}", n, a),
                        None => n.clone(),
                    })
                    .collect();
                if *paren {
                    format!("from {} use (\n    {},\n)", self.spec, its.join(",\n    "))
                } else {
                    format!("from {} use {}", self.spec, its.join(", "))
                }
            }
        }
    }
}

/// A type-annotated read of some module's global from inside a function of `module`.
#[derive(Clone, Debug)]
pub struct UseSite {
    /// how it is written in the multi-file form, e.g. `nb.qva`, `nb.nc.qvb`, `zq1`
    pub expr: String,
    /// what it denotes
    pub target: (usize, String),
    pub ty: Ty,
    /// for blob types: how the type is written in the multi-file form (e.g. `nb.Bq1`, `Zt`)
    pub ty_expr: String,
    /// the target is a function and is called
    pub call: bool,
    /// the target is a mutable global (`:=`): it is also assigned a new value of its type
    pub assign: bool,
}

#[derive(Clone, Debug)]
pub struct Module {
    /// path relative to the project directory, e.g. "da/exports.sy"
    pub rel: String,
    pub globals: Vec<Global>,
    pub imports: Vec<Import>,
    pub uses: Vec<UseSite>,
    /// extra raw lines placed in the check function (twists)
    pub raw_body: Vec<String>,
    /// extra raw top-level lines (twists)
    pub raw_top: Vec<String>,
    /// a non-main module whose check function is itself called `start` (as the project's own
    /// test files do): only the main file's `start` is the program's entry point
    pub own_start: bool,
    /// lines placed at the start of the check function (before the use sites), e.g. a local in a dead scope
    pub pre_body: Vec<String>,
    /// (main file only) the program's `start` is not defined here but from-imported from this module
    pub start_from: Option<usize>,
    /// a module file that holds nothing at all (a split in which one file got no globals): its whole text
    pub blank: Option<String>,
}

impl Module {
    pub fn dir(&self) -> &str {
        match self.rel.rfind('/') {
            Some(i) => &self.rel[..=i],
            None => "",
        }
    }
    pub fn stem(&self) -> &str {
        let f = self.rel.rsplit('/').next().unwrap();
        f.strip_suffix(".sy").unwrap_or(f)
    }
}

#[derive(Clone, Debug)]
pub struct Project {
    pub modules: Vec<Module>,
    pub twist: Option<String>,
    pub removed: Vec<String>,
    pub concrete: Concrete,
    /// the same globals and use sites in a single file (None when a twist is applied)
    pub flattened: Option<String>,
    pub expect_reads: BTreeSet<String>,
    pub expect_ok: bool,
    pub features: BTreeSet<&'static str>,
}

// ------------------------------------------------------------------------------------
// the model

/// docs/guide.adoc §Imports: importing file (relative to the project dir), path as written → file.
pub fn model_resolve(importer_rel: &str, spec: &str) -> String {
    let importer_dir = match importer_rel.rfind('/') {
        Some(i) => &importer_rel[..=i],
        None => "",
    };
    let (base, rest) = match spec.strip_prefix('/') {
        Some(r) => ("", r),
        None => (importer_dir, spec),
    };
    if rest.is_empty() {
        return format!("{}exports.sy", base);
    }
    match rest.strip_suffix('/') {
        Some(d) => format!("{}{}/exports.sy", base, d),
        None => format!("{}{}.sy", base, rest),
    }
}

/// The name a `use` binds when no alias is given: the last path segment.
pub fn model_implicit_name(spec: &str) -> String {
    spec.trim_matches('/').rsplit('/').next().unwrap_or("").to_string()
}

/// Paths the loader must request (each exactly once), given which files exist.
pub fn model_closure(modules: &[Module], existing: &BTreeSet<String>) -> BTreeSet<String> {
    let by_rel: BTreeMap<&str, &Module> = modules.iter().map(|m| (m.rel.as_str(), m)).collect();
    let mut seen = BTreeSet::new();
    let mut work = vec!["main.sy".to_string()];
    while let Some(p) = work.pop() {
        if !seen.insert(p.clone()) {
            continue;
        }
        if !existing.contains(&p) {
            continue;
        }
        if let Some(m) = by_rel.get(p.as_str()) {
            for i in &m.imports {
                work.push(model_resolve(&m.rel, &i.spec));
            }
        }
    }
    seen
}

#[derive(Default, Clone, Debug)]
pub struct Bindings {
    /// namespace name → module
    pub ns: BTreeMap<String, usize>,
    /// plain name → (module, global)
    pub names: BTreeMap<String, (usize, String)>,
}

/// What is visible in module `f` according to the documentation.
pub fn model_bindings(modules: &[Module], f: usize) -> Bindings {
    let mut b = Bindings::default();
    let m = &modules[f];
    for g in &m.globals {
        b.names.insert(g.name.clone(), (f, g.name.clone()));
    }
    for i in &m.imports {
        match &i.kind {
            ImportKind::Use { alias } => {
                let n = alias.clone().unwrap_or_else(|| model_implicit_name(&i.spec));
                b.ns.insert(n, i.target);
            }
            ImportKind::From { items, .. } => {
                for (n, a) in items {
                    b.names.insert(a.clone().unwrap_or_else(|| n.clone()), (i.target, n.clone()));
                }
            }
        }
    }
    b
}

// ------------------------------------------------------------------------------------
// the generator

const FILE_NAMES: &[&str] = &["ma", "mb", "mc", "md", "me", "mf"];
/// User files may carry the name of a standard-library module as long as they live in a
/// sub-folder: `use da/math as m` is "da/math.sy" by the documented path rule.
const STD_LIKE_NAMES: &[&str] = &["math", "list", "set", "common", "maybe", "dict"];
const STD_NAMESPACES: &[&str] = &["common", "container", "dict", "list", "math", "maybe", "preamble", "set", "unsafe"];
const DIRS: &[&str] = &["", "", "da/", "db/", "da/dc/"];
const GLOBAL_POOL: &[&str] = &["qva", "qvb", "qvc", "qvd"];

fn render_module(m: &Module, is_main: bool) -> String {
    if let Some(b) = &m.blank {
        if m.raw_body.is_empty() && m.raw_top.is_empty() {
            return b.clone();
        }
    }
    let mut s = String::new();
    for i in &m.imports {
        s.push_str(&i.line());
        s.push('\n');
    }
    if !m.imports.is_empty() {
        s.push('\n');
    }
    for l in &m.raw_top {
        s.push_str(l);
        s.push('\n');
    }
    for g in &m.globals {
        s.push_str(&g.init);
        s.push('\n');
    }
    s.push('\n');
    s.push_str(if (is_main && m.start_from.is_none()) || m.own_start { "start :: fn do\n" } else { "zchk :: fn do\n" });
    // a marker that identifies this function in the emitted Lua
    s.push_str(&format!("    zmark := \"{}\"\n    zmark <=> \"{}\"\n", marker_of(&m.rel), marker_of(&m.rel)));
    for l in &m.pre_body {
        s.push_str(&format!("    {}\n", l));
    }
    for (k, u) in m.uses.iter().enumerate() {
        match &u.ty {
            Ty::Blob(_, _, field) => {
                s.push_str(&format!("    u{}: {} = {} {{ f: {} }}\n", k, u.ty_expr, u.expr, field.literal(k)));
                s.push_str(&format!("    w{}: {} = u{}.f\n", k, field.name(), k));
            }
            Ty::Enum(_, _, payload) => {
                s.push_str(&format!("    u{}: {} = {}.Ka {}\n", k, u.ty_expr, u.expr, payload.literal(k)));
                s.push_str(&format!("    w{}: {} = {}.Kb\n", k, u.ty_expr, u.expr));
            }
            t => {
                s.push_str(&format!("    u{}: {} = {}{}\n", k, t.name(), u.expr, if u.call { "()" } else { "" }));
                if u.assign {
                    s.push_str(&format!("    {} = {}\n", u.expr, t.literal(k + 7)));
                }
            }
        }
    }
    for l in &m.raw_body {
        s.push_str(&format!("    {}\n", l));
    }
    s.push_str("end\n");
    s
}

pub fn marker_of(rel: &str) -> String {
    // only the main file's marker matters; the others are all alike so that files of the same content
    // in different folders stay byte-identical
    if rel == "main.sy" {
        "ZMARK-main".to_string()
    } else {
        "ZMARK-not-the-main-file".to_string()
    }
}

fn flat_name(modules: &[Module], m: usize, g: &str) -> String {
    let tag = modules[m].rel.replace('/', "_").replace(".sy", "");
    let is_type = g.chars().next().map(|c| c.is_ascii_uppercase()).unwrap_or(false);
    if is_type {
        format!("T{}x{}", tag, g)
    } else {
        format!("g{}x{}", tag, g)
    }
}

fn render_flat(modules: &[Module]) -> String {
    let mut s = String::new();
    for (mi, m) in modules.iter().enumerate() {
        for g in &m.globals {
            let n = flat_name(modules, mi, &g.name);
            if g.is_type {
                match &g.ty {
                    Ty::Blob(_, _, f) => s.push_str(&format!("{} :: blob {{ f: {} }}\n", n, f.name())),
                    Ty::Enum(_, _, p) => s.push_str(&format!("{} :: enum\n    Ka {},\n    Kb,\nend\n", n, p.name())),
                    _ => {}
                }
            } else if g.is_fn {
                s.push_str(&format!("{} :: fn -> {} do\n    ret {}\nend\n", n, g.ty.name(), g.lit.clone().unwrap_or_default()));
            } else if let Some((cm, cg)) = &g.copies {
                let (pre, post) = g.lit.as_deref().and_then(|l| l.split_once('|')).unwrap_or(("", ""));
                s.push_str(&format!("{} :: {}{}{}\n", n, pre, flat_name(modules, *cm, cg), post));
            } else {
                s.push_str(&format!("{} {} {}\n", n, if g.init.contains(" := ") { ":=" } else { "::" }, g.lit.clone().unwrap_or_default()));
            }
        }
    }
    s.push_str("\nstart :: fn do\n");
    let mut k = 0;
    for m in modules.iter() {
        for u in &m.uses {
            let r = flat_name(modules, u.target.0, &u.target.1);
            match &u.ty {
                Ty::Blob(_, _, field) => {
                    s.push_str(&format!("    u{}: {} = {} {{ f: {} }}\n", k, r, r, field.literal(k)));
                    s.push_str(&format!("    w{}: {} = u{}.f\n", k, field.name(), k));
                }
                Ty::Enum(_, _, payload) => {
                    s.push_str(&format!("    u{}: {} = {}.Ka {}\n", k, r, r, payload.literal(k)));
                    s.push_str(&format!("    w{}: {} = {}.Kb\n", k, r, r));
                }
                t => {
                    s.push_str(&format!("    u{}: {} = {}{}\n", k, t.name(), r, if u.call { "()" } else { "" }));
                    if u.assign {
                        s.push_str(&format!("    {} = {}\n", r, t.literal(k + 7)));
                    }
                }
            }
            k += 1;
        }
    }
    s.push_str("end\n");
    s
}

/// Every way of writing "import module `t` from module `f`" that the documentation allows.
fn specs_for(modules: &[Module], f: usize, t: usize) -> Vec<(String, &'static str)> {
    let fm = &modules[f];
    let tm = &modules[t];
    let mut out = Vec::new();
    let no_ext = tm.rel.strip_suffix(".sy").unwrap().to_string();
    // root-relative forms are always available
    out.push((format!("/{}", no_ext), "root"));
    if tm.stem() == "exports" {
        if tm.dir().is_empty() {
            out.push(("/".to_string(), "root-folder"));
        } else {
            out.push((format!("/{}", tm.dir()), "root-folder"));
        }
    }
    // relative forms need the target below the importer's directory
    if let Some(rel) = no_ext.strip_prefix(fm.dir()) {
        out.push((rel.to_string(), "relative"));
        if tm.stem() == "exports" {
            let d = tm.dir().strip_prefix(fm.dir()).unwrap();
            if !d.is_empty() {
                out.push((d.to_string(), "relative-folder"));
            }
        }
    }
    // a bare library name denotes the standard library, not a file
    out.retain(|(spec, _)| !STD_NAMESPACES.contains(&spec.trim_matches('/')));
    out
}

pub fn generate(seed: u64) -> Project {
    generate_with(seed, false)
}

/// `with_std`: the project will be compiled with the standard library bundled, so a module may import a
/// standard module under an alias and still use its standard name (which the preamble binds in every file).
pub fn generate_with(seed: u64, with_std: bool) -> Project {
    let mut r = Rng::sub(seed, "project");
    let mut features: BTreeSet<&'static str> = BTreeSet::new();

    // ---- modules and their paths
    let n = r.weighted(&[8, 25, 25, 20, 12, 10]) + 1;
    let mut modules: Vec<Module> = vec![Module {
        rel: "main.sy".into(),
        globals: vec![],
        imports: vec![],
        uses: vec![],
        raw_body: vec![],
        raw_top: vec![],
        own_start: false,
        pre_body: vec![],
        start_from: None,
        blank: None,
    }];
    let mut used_paths: BTreeSet<String> = BTreeSet::new();
    used_paths.insert("main.sy".into());
    while modules.len() < n {
        let dir = *r.pick(DIRS);
        let name = if r.chance(1, 4) {
            "exports"
        } else if !dir.is_empty() && r.chance(1, 5) {
            features.insert("std_named_user_file");
            *r.pick(STD_LIKE_NAMES)
        } else {
            *r.pick(FILE_NAMES)
        };
        let rel = format!("{}{}.sy", dir, name);
        if used_paths.insert(rel.clone()) {
            let own_start = r.chance(1, 3);
            if own_start {
                features.insert("non_main_start");
            }
            let blank = if r.chance(1, 8) {
                features.insert("blank_module");
                Some(r.pick(&["", "\n", "   \n\n", "\t\n", "// nothing here yet\n"]).to_string())
            } else {
                None
            };
            modules.push(Module { rel, globals: vec![], imports: vec![], uses: vec![], raw_body: vec![], raw_top: vec![], own_start: own_start && blank.is_none(), pre_body: vec![], start_from: None, blank });
        }
    }

    // ---- globals: small shared name pool, so the same name means different things in different modules
    for mi in 0..modules.len() {
        if modules[mi].blank.is_some() {
            continue;
        }
        let k = r.range(1, 3);
        let mut names: Vec<&str> = GLOBAL_POOL.to_vec();
        r.shuffle(&mut names);
        for (gi, name) in names.iter().take(k).enumerate() {
            let idx = GLOBAL_POOL.iter().position(|x| x == name).unwrap();
            let ty = Ty::prim(idx + mi);
            let kind = if modules[mi].rel == "main.sy" { "::" } else { *r.pick(&["::", "::", ":="]) };
            let lit = ty.literal(mi * 3 + gi);
            let init = format!("{} {} {}", name, kind, lit);
            modules[mi].globals.push(Global { name: name.to_string(), ty, init, lit: Some(lit), copies: None, is_type: false, is_fn: false });
        }
        if r.chance(1, 3) {
            let bname = format!("Bq{}", r.below(2));
            let fty = Ty::prim(r.below(4));
            let init = format!("{} :: blob {{\n    f: {},\n}}", bname, fty.name());
            modules[mi].globals.push(Global {
                name: bname.clone(),
                ty: Ty::Blob(mi, bname, Box::new(fty)),
                init,
                lit: None,
                copies: None,
                is_type: true,
                is_fn: false,
            });
            features.insert("blob_type");
        }
        if r.chance(1, 4) {
            let ename = format!("Eq{}", r.below(2));
            let pty = Ty::prim(r.below(4));
            let init = format!("{} :: enum\n    Ka {},\n    Kb,\nend", ename, pty.name());
            modules[mi].globals.push(Global {
                name: ename.clone(),
                ty: Ty::Enum(mi, ename, Box::new(pty)),
                init,
                lit: None,
                copies: None,
                is_type: true,
                is_fn: false,
            });
            features.insert("enum_type");
        }
        if r.chance(1, 3) {
            let fname = format!("qf{}", r.below(2));
            let rty = Ty::prim(r.below(4) + mi);
            let lit = rty.literal(mi + 5);
            let init = format!("{} :: fn -> {} do\n    ret {}\nend", fname, rty.name(), lit);
            modules[mi].globals.push(Global { name: fname, ty: rty, init, lit: Some(lit), copies: None, is_type: false, is_fn: true });
            features.insert("function_global");
        }
    }

    // ---- import edges (cycles and diamonds welcome)
    let mut alias_counter = 0;
    for f in 0..modules.len() {
        if modules[f].blank.is_some() {
            continue;
        }
        let max_edges = (modules.len() - 1).min(3);
        let k = if f == 0 { r.range(max_edges.min(1), max_edges) } else { r.range(0, max_edges) };
        let mut targets: Vec<usize> = (0..modules.len()).filter(|t| *t != f).collect();
        r.shuffle(&mut targets);
        targets.truncate(k);
        if r.chance(1, 10) {
            // a file may import itself: the shortest cycle
            targets.push(f);
            features.insert("self_import");
        }
        for t in targets {
            let specs = specs_for(&modules, f, t);
            if specs.is_empty() {
                continue;
            }
            let (spec, form) = r.pick(&specs).clone();
            match form {
                "root" | "root-folder" => {
                    if !modules[f].dir().is_empty() {
                        features.insert("root_import_from_nested");
                    }
                    features.insert("root_import");
                }
                _ => {}
            }
            if form.ends_with("folder") {
                features.insert("exports_folder");
            }
            let b = model_bindings(&modules, f);
            let taken = |n: &str| b.ns.contains_key(n) || b.names.contains_key(n);
            let want_from = r.chance(2, 5) && modules[t].globals.iter().any(|_| true);
            if want_from {
                let mut gs: Vec<&Global> = modules[t].globals.iter().filter(|g| g.copies.is_none()).collect();
                r.shuffle(&mut gs);
                gs.truncate(r.range(1, 2));
                let mut items = Vec::new();
                let mut local_taken: BTreeSet<String> = BTreeSet::new();
                for g in gs {
                    let need_alias = taken(&g.name) || local_taken.contains(&g.name);
                    let alias = if need_alias || r.chance(1, 3) {
                        alias_counter += 1;
                        features.insert("from_alias");
                        Some(if g.is_type { format!("Zt{}", alias_counter) } else { format!("zq{}", alias_counter) })
                    } else {
                        None
                    };
                    local_taken.insert(alias.clone().unwrap_or_else(|| g.name.clone()));
                    items.push((g.name.clone(), alias));
                }
                features.insert("from_import");
                let paren = r.chance(1, 3);
                modules[f].imports.push(Import { target: t, spec, kind: ImportKind::From { items, paren } });
            } else {
                let implicit = model_implicit_name(&spec);
                let already_same = b.ns.get(&implicit) == Some(&t);
                // the implicit name of a std-named file would collide with the namespace the preamble binds
                let alias = if spec == "/" || STD_NAMESPACES.contains(&implicit.as_str()) || (taken(&implicit) && !already_same) || r.chance(1, 3) {
                    alias_counter += 1;
                    features.insert("use_alias");
                    Some(format!("na{}", alias_counter))
                } else {
                    None
                };
                modules[f].imports.push(Import { target: t, spec, kind: ImportKind::Use { alias } });
            }
        }
    }

    // ---- the same global imported a second time under another name (allowed: "importing the same thing twice")
    for f in 0..modules.len() {
        if !r.chance(1, 8) {
            continue;
        }
        let again: Option<(usize, String, String)> = modules[f].imports.iter().find_map(|i| match &i.kind {
            ImportKind::From { items, .. } => items.iter().find(|(n, _)| !n.starts_with('B') && !n.starts_with('E')).map(|(n, _)| (i.target, i.spec.clone(), n.clone())),
            _ => None,
        });
        if let Some((t, spec, name)) = again {
            alias_counter += 1;
            let alias = format!("zq{}", alias_counter);
            modules[f].imports.push(Import { target: t, spec, kind: ImportKind::From { items: vec![(name, Some(alias))], paren: false } });
            features.insert("same_global_imported_twice_under_two_names");
        }
    }

    // ---- initialisers that copy another module's global, along the module order (no dependency cycle)
    for f in 0..modules.len() {
        if !r.chance(1, 4) {
            continue;
        }
        let b = model_bindings(&modules, f);
        let cands: Vec<(String, usize)> = b.ns.iter().filter(|(_, t)| **t > f).map(|(n, t)| (n.clone(), *t)).collect();
        if cands.is_empty() {
            continue;
        }
        let (ns, t) = r.pick(&cands).clone();
        let gs: Vec<Global> = modules[t].globals.iter().filter(|g| !g.is_type && !g.is_fn && g.copies.is_none()).cloned().collect();
        if gs.is_empty() {
            continue;
        }
        let g = r.pick(&gs).clone();
        let name = format!("qc{}", f);
        // half of the copies go through an operator (the value then depends on the other module's global through
        // an expression, not through a bare name)
        let (pre, post): (&str, &str) = if r.chance(1, 2) {
            ("", "")
        } else {
            match (&g.ty, r.below(2)) {
                (Ty::Int, 0) => ("1000 + ", ""),
                (Ty::Int, _) => ("", " * 2"),
                (Ty::Float, 0) => ("", " + 1.5"),
                (Ty::Float, _) => ("0.5 * ", ""),
                (Ty::Bool, 0) => ("", " and true"),
                (Ty::Bool, _) => ("false or ", ""),
                _ => ("", ""),
            }
        };
        if !pre.is_empty() || !post.is_empty() {
            features.insert("copy_initialiser_through_operator");
        }
        modules[f].globals.push(Global {
            name: name.clone(),
            ty: g.ty.clone(),
            init: format!("{} :: {}{}.{}{}", name, pre, ns, g.name, post),
            lit: Some(format!("{}|{}", pre, post)),
            copies: Some((t, g.name.clone())),
            is_type: false,
            is_fn: false,
        });
        features.insert("copy_initialiser");
    }

    // ---- use sites: every binding is exercised with a type annotation
    for f in 0..modules.len() {
        let b = model_bindings(&modules, f);
        let mut uses = Vec::new();
        for (ns, t) in &b.ns {
            let gs = modules[*t].globals.clone();
            if gs.is_empty() {
                continue;
            }
            let g = r.pick(&gs).clone();
            if g.is_type {
                uses.push(UseSite { expr: format!("{}.{}", ns, g.name), target: (*t, g.name.clone()), ty: g.ty.clone(), ty_expr: format!("{}.{}", ns, g.name), call: false, assign: false });
            } else {
                uses.push(UseSite { expr: format!("{}.{}", ns, g.name), target: (*t, g.name.clone()), ty: g.ty.clone(), ty_expr: String::new(), call: g.is_fn, assign: !g.is_fn && g.init.contains(" := ") && r.chance(1, 2) });
            }
            // chained access through a namespace the target imported itself
            if r.chance(1, 3) {
                let b2 = model_bindings(&modules, *t);
                let chain: Vec<(String, usize)> = b2.ns.iter().map(|(n, t2)| (n.clone(), *t2)).collect();
                if !chain.is_empty() {
                    let (ns2, t2) = r.pick(&chain).clone();
                    let gs2: Vec<Global> = modules[t2].globals.clone();
                    if !gs2.is_empty() {
                        let g2 = r.pick(&gs2).clone();
                        uses.push(UseSite {
                            expr: format!("{}.{}.{}", ns, ns2, g2.name),
                            target: (t2, g2.name.clone()),
                            ty: g2.ty.clone(),
                            ty_expr: format!("{}.{}.{}", ns, ns2, g2.name),
                            call: g2.is_fn,
                            assign: false,
                        });
                        features.insert("chain_access");
                        if g2.is_type {
                            features.insert("chain_type_access");
                        }
                    }
                }
            }
        }
        for (name, (t, g)) in &b.names {
            let gl = modules[*t].globals.iter().find(|x| x.name == *g).unwrap().clone();
            uses.push(UseSite { expr: name.clone(), target: (*t, g.clone()), ty: gl.ty.clone(), ty_expr: name.clone(), call: gl.is_fn, assign: !gl.is_fn && !gl.is_type && gl.init.contains(" := ") && r.chance(1, 2) });
        }
        r.shuffle(&mut uses);
        modules[f].uses = uses;
        // lexical scoping meets namespaces: a local named like a namespace, alive only inside a branch
        if r.chance(1, 6) {
            if let Some(ns) = b.ns.keys().next() {
                modules[f].pre_body.push(format!("if true do\n        {} := \"a local in a scope that ends here\"\n    end", ns));
                features.insert("local_named_like_a_namespace_in_an_inner_scope");
            }
        }
    }

    // ---- the program's `start` lives in another file and the main file from-imports it
    if Rng::sub(seed, "start-from").chance(1, 10) {
        let cand: Option<(usize, String)> = modules[0]
            .imports
            .iter()
            .filter(|i| i.target != 0 && modules[i.target].own_start && modules[i.target].blank.is_none())
            .map(|i| (i.target, i.spec.clone()))
            .next();
        let b0 = model_bindings(&modules, 0);
        if let Some((t, spec)) = cand {
            if !b0.names.contains_key("start") && !b0.ns.contains_key("start") {
                modules[0].start_from = Some(t);
                modules[0].raw_top.push(format!("from {} use start", spec));
                features.insert("start_from_imported_module");
            }
        }
    }

    // ---- a standard module imported under an alias next to its standard name
    if with_std && Rng::sub(seed, "std-alias").chance(1, 5) {
        let f = Rng::sub(seed, "std-alias-file").below(modules.len());
        if modules[f].blank.is_none() {
            modules[f].raw_top.push("use math as zmath".to_string());
            modules[f].pre_body.push("zpi1: float = zmath.pi".to_string());
            modules[f].pre_body.push("zpi2: float = math.pi".to_string());
            modules[f].pre_body.push("zpi3: float = math.sqrt(4.0)".to_string());
            features.insert("std_module_under_an_alias");
        }
    }

    // ---- twin folder: a second folder holding files with the same names, some byte-identical to their
    // twins, some differing only in their values. Each file is its own module; relative imports inside a
    // twin resolve inside that twin.
    if r.chance(1, 6) {
        // only folders whose files import, relatively, nothing but each other (so the twin is self-contained)
        let self_contained = |d: &str| {
            modules.iter().filter(|m| m.dir() == d).all(|m| m.imports.iter().all(|i| i.spec.starts_with('/') || modules[i.target].dir() == d))
        };
        let d1_candidates: Vec<&str> = ["da/", "db/"].iter().copied().filter(|d| modules.iter().filter(|m| m.dir() == *d).count() >= 2 && self_contained(d)).collect();
        if let Some(d1) = d1_candidates.first().copied() {
            let d2 = "dx/";
            let originals: Vec<usize> = (0..modules.len()).filter(|i| modules[*i].dir() == d1).collect();
            // an edge A -> B inside the folder, written relatively: A's twin stays byte-identical to A,
            // B's twin differs, and B's twin is reachable only through A's twin
            let edge: Option<(usize, usize)> = originals
                .iter()
                .flat_map(|a| modules[*a].imports.iter().filter(|i| !i.spec.starts_with('/') && i.target != *a && originals.contains(&i.target)).map(move |i| (*a, i.target)))
                .next();
            let first_clone = modules.len();
            let clone_of = |i: usize| -> Option<usize> { originals.iter().position(|o| *o == i).map(|p| first_clone + p) };
            let mut clones: Vec<Module> = Vec::new();
            let mut varied_flags: Vec<bool> = Vec::new();
            for (pos, &o) in originals.iter().enumerate() {
                let mut c = modules[o].clone();
                c.rel = format!("{}{}", d2, &modules[o].rel[d1.len()..]);
                for imp in c.imports.iter_mut() {
                    if !imp.spec.starts_with('/') {
                        if let Some(t2) = clone_of(imp.target) {
                            imp.target = t2;
                        }
                    }
                }
                // the model's notion of what each use site denotes follows the import it goes through
                let specs: Vec<(String, usize, usize)> = modules[o].imports.iter().zip(c.imports.iter()).map(|(a, b)| (a.spec.clone(), a.target, b.target)).collect();
                for u in c.uses.iter_mut() {
                    if u.target.0 == o {
                        u.target.0 = first_clone + pos;
                    } else if let Some((_, _, new_t)) = specs.iter().find(|(s, old_t, _)| !s.starts_with('/') && *old_t == u.target.0) {
                        u.target.0 = *new_t;
                    }
                }
                for g in c.globals.iter_mut() {
                    if let Ty::Blob(mi, _, _) | Ty::Enum(mi, _, _) = &mut g.ty {
                        if *mi == o {
                            *mi = first_clone + pos;
                        }
                    }
                    if let Some((cm, _)) = &mut g.copies {
                        if let Some(t2) = clone_of(*cm) {
                            // a copy initialiser reads through a namespace; it follows the import like a use site does
                            if specs.iter().any(|(s, old_t, _)| !s.starts_with('/') && *old_t == *cm) {
                                *cm = t2;
                            }
                        }
                    }
                }
                // some twins differ from their originals in their values only
                let varied = match edge {
                    Some((a, b)) => o == b || (o != a && pos % 2 == 1),
                    None => pos % 2 == 1 || pos + 1 == originals.len(),
                };
                varied_flags.push(varied);
                if varied {
                    for g in c.globals.iter_mut() {
                        if g.copies.is_some() {
                            continue;
                        }
                        if let Some(l) = g.lit.clone() {
                            let nl = match &g.ty {
                                Ty::Int => format!("{}", l.parse::<i64>().unwrap_or(0) + 100),
                                Ty::Float => format!("1{}", l),
                                Ty::Str => format!("{}tw\"", l.trim_end_matches('"')),
                                Ty::Bool => (if l == "true" { "false" } else { "true" }).to_string(),
                                _ => l.clone(),
                            };
                            if let Some(at) = g.init.rfind(&l) {
                                g.init = format!("{}{}{}", &g.init[..at], nl, &g.init[at + l.len()..]);
                            }
                            g.lit = Some(nl);
                        }
                    }
                }
                c.own_start = modules[o].own_start;
                clones.push(c);
            }
            modules.extend(clones);
            // the main file imports the byte-identical twins only; the others are reached through them (or not at all)
            for (pos, _) in originals.iter().enumerate() {
                if varied_flags[pos] && edge.is_some() {
                    continue;
                }
                let t = first_clone + pos;
                let spec = modules[t].rel.strip_suffix(".sy").unwrap().to_string();
                let spec = if modules[t].stem() == "exports" && r.chance(1, 2) { d2.to_string() } else { spec };
                alias_counter += 1;
                let alias = format!("ntw{}", alias_counter);
                modules[0].imports.push(Import { target: t, spec, kind: ImportKind::Use { alias: Some(alias.clone()) } });
                if let Some(g) = modules[t].globals.iter().find(|g| !g.is_type && !g.is_fn).cloned() {
                    modules[0].uses.push(UseSite { expr: format!("{}.{}", alias, g.name), target: (t, g.name.clone()), ty: g.ty.clone(), ty_expr: String::new(), call: false, assign: false });
                }
            }
            features.insert("twin_folder");
        }
    }

    // ---- structure probes
    let existing_all: BTreeSet<String> = modules.iter().map(|m| m.rel.clone()).collect();
    {
        let mut indeg: BTreeMap<usize, BTreeSet<usize>> = BTreeMap::new();
        for (f, m) in modules.iter().enumerate() {
            for i in &m.imports {
                indeg.entry(i.target).or_default().insert(f);
            }
        }
        if indeg.values().any(|s| s.len() >= 2) {
            features.insert("diamond");
        }
        // cycle: some module reaches itself
        for s in 0..modules.len() {
            let mut seen = BTreeSet::new();
            let mut work: Vec<usize> = modules[s].imports.iter().map(|i| i.target).collect();
            while let Some(x) = work.pop() {
                if x == s {
                    features.insert("cycle_closed");
                    break;
                }
                if seen.insert(x) {
                    work.extend(modules[x].imports.iter().map(|i| i.target));
                }
            }
        }
        if modules.iter().any(|m| m.rel.contains('/')) {
            features.insert("subfolder");
        }
    }

    // ---- optional negative twist
    let mut twist: Option<String> = None;
    let mut removed: Vec<String> = Vec::new();
    let mut tr = Rng::sub(seed, "twist");
    let closure_before = model_closure(&modules, &existing_all);
    let loaded: Vec<usize> = (0..modules.len()).filter(|i| closure_before.contains(&modules[*i].rel)).collect();
    if tr.chance(1, 3) {
        let mut order: Vec<usize> = (0..12).collect();
        tr.shuffle(&mut order);
        'outer: for which in order {
            let f = *tr.pick(&loaded);
            if modules[f].blank.is_some() {
                continue;
            }
            let b = model_bindings(&modules, f);
            match which {
                0 => {
                    // bare reference to another loaded module's global that was never imported here
                    let mut cands = Vec::new();
                    for &g_mod in &loaded {
                        if g_mod == f {
                            continue;
                        }
                        for g in &modules[g_mod].globals {
                            if !b.names.contains_key(&g.name) && !b.ns.contains_key(&g.name) && !g.is_type {
                                cands.push(g.name.clone());
                            }
                        }
                    }
                    if let Some(name) = cands.first() {
                        modules[f].raw_body.push(format!("t0 := {}", name));
                        twist = Some("bare-reference-without-import".into());
                        break 'outer;
                    }
                }
                1 => {
                    // qualified reference through a namespace name that is bound elsewhere but not in this file
                    let mut cands = Vec::new();
                    for &o in &loaded {
                        if o == f {
                            continue;
                        }
                        for (ns, t) in &model_bindings(&modules, o).ns {
                            if !b.ns.contains_key(ns) && !b.names.contains_key(ns) {
                                if let Some(g) = modules[*t].globals.iter().find(|g| !g.is_type) {
                                    cands.push(format!("{}.{}", ns, g.name));
                                }
                            }
                        }
                    }
                    if let Some(e) = cands.first() {
                        modules[f].raw_body.push(format!("t1 := {}", e));
                        twist = Some("namespace-not-bound-in-this-file".into());
                        break 'outer;
                    }
                }
                2 => {
                    // from p use <a name p does not define>
                    if let Some(i) = modules[f].imports.first().cloned() {
                        // names the target re-exports through its own from-imports are left alone: the
                        // documentation does not say whether they can be imported from it
                        let tb = model_bindings(&modules, i.target);
                        if let Some(name) = GLOBAL_POOL.iter().find(|n| !tb.names.contains_key(**n) && !tb.ns.contains_key(**n)) {
                            modules[f].raw_top.push(format!("from {} use {} as zt2", i.spec, name));
                            twist = Some("from-import-of-undefined-name".into());
                            break 'outer;
                        }
                    }
                }
                3 => {
                    // ns.<name the target does not define>
                    if let Some((ns, t)) = b.ns.iter().next() {
                        let defined: BTreeSet<String> = modules[*t].globals.iter().map(|g| g.name.clone()).collect();
                        if let Some(name) = GLOBAL_POOL.iter().find(|n| !defined.contains(**n)) {
                            // the target's own from-imports would make the name reachable through its table
                            let tb = model_bindings(&modules, *t);
                            if !tb.names.contains_key(*name) && !tb.ns.contains_key(*name) {
                                modules[f].raw_body.push(format!("t3 := {}.{}", ns, name));
                                twist = Some("qualified-name-not-in-target".into());
                                break 'outer;
                            }
                        }
                    }
                }
                4 => {
                    // a reachable file is missing
                    let cands: Vec<usize> = loaded.iter().copied().filter(|i| *i != 0).collect();
                    if !cands.is_empty() {
                        let v = *tr.pick(&cands);
                        removed.push(modules[v].rel.clone());
                        twist = Some("reachable-file-missing".into());
                        break 'outer;
                    }
                }
                5 => {
                    // a use site annotated with the wrong type: the annotation must bite
                    if let Some(u) = modules[f].uses.iter().find(|u| !matches!(u.ty, Ty::Blob(..) | Ty::Enum(..))).cloned() {
                        modules[f].raw_body.push(format!("t5: {} = {}{}", u.ty.other_prim().name(), u.expr, if u.call { "()" } else { "" }));
                        twist = Some("wrong-type-annotation".into());
                        break 'outer;
                    }
                }
                6 => {
                    // `use p as n` must not also bind p's implicit name
                    for i in modules[f].imports.clone().iter() {
                        if let ImportKind::Use { alias: Some(_) } = &i.kind {
                            let implicit = model_implicit_name(&i.spec);
                            if !implicit.is_empty() && !b.ns.contains_key(&implicit) && !b.names.contains_key(&implicit) {
                                if let Some(g) = modules[i.target].globals.iter().find(|g| !g.is_type).cloned() {
                                    modules[f].raw_body.push(format!("t6 := {}.{}", implicit, g.name));
                                    twist = Some("implicit-name-used-despite-alias".into());
                                    break 'outer;
                                }
                            }
                        }
                    }
                }
                11 => {
                    // one plain name for two different globals: the second from-import must not be dropped silently
                    if let Some((name, (t1, g1))) = b.names.iter().find(|(_, (t, _))| *t != f).map(|(n, tg)| (n.clone(), tg.clone())) {
                        let mut done = false;
                        for &t2 in &loaded {
                            if t2 == t1 || t2 == f {
                                continue;
                            }
                            if let Some(g2) = modules[t2].globals.iter().find(|g| g.copies.is_none() && (g.name != g1 || t2 != t1)).cloned() {
                                if let Some((spec, _)) = specs_for(&modules, f, t2).first().cloned() {
                                    let line = if g2.name == name { format!("from {} use {}", spec, g2.name) } else { format!("from {} use {} as {}", spec, g2.name, name) };
                                    modules[f].raw_top.push(line);
                                    done = true;
                                    break;
                                }
                            }
                        }
                        if done {
                            twist = Some("plain-name-bound-to-two-globals".into());
                            break 'outer;
                        }
                    }
                }
                9 => {
                    // a mutable global of another module assigned a value of the wrong type
                    if let Some(u) = modules[f].uses.iter().find(|u| u.target.0 != f && !u.call && !matches!(u.ty, Ty::Blob(..) | Ty::Enum(..)) && modules[u.target.0].globals.iter().any(|g| g.name == u.target.1 && g.init.contains(" := "))).cloned() {
                        modules[f].raw_body.push(format!("{} = {}", u.expr, u.ty.other_prim().literal(3)));
                        twist = Some("imported-mutable-assigned-wrong-type".into());
                        break 'outer;
                    }
                }
                10 => {
                    // a constant of another module assigned through the import
                    if let Some(u) = modules[f].uses.iter().find(|u| u.target.0 != f && !u.call && !matches!(u.ty, Ty::Blob(..) | Ty::Enum(..)) && modules[u.target.0].globals.iter().any(|g| g.name == u.target.1 && g.init.contains(" :: ") && g.copies.is_none() && !g.is_fn)).cloned() {
                        modules[f].raw_body.push(format!("{} = {}", u.expr, u.ty.literal(4)));
                        twist = Some("imported-constant-assigned".into());
                        break 'outer;
                    }
                }
                8 => {
                    // one namespace name for two different files: the second import must not be dropped silently
                    if let Some((ns, t1)) = b.ns.iter().next().map(|(n, t)| (n.clone(), *t)) {
                        let others: Vec<usize> = loaded.iter().copied().filter(|t| *t != t1 && *t != f).collect();
                        if let Some(&t2) = others.first() {
                            let specs = specs_for(&modules, f, t2);
                            if let Some((spec, _)) = specs.first() {
                                if spec != "/" {
                                    modules[f].raw_top.push(format!("use {} as {}", spec, ns));
                                    twist = Some("namespace-name-bound-to-two-files".into());
                                    break 'outer;
                                }
                            }
                        }
                    }
                }
                _ => {
                    // `from p use x as y` must not also bind x
                    for i in modules[f].imports.clone().iter() {
                        if let ImportKind::From { items, .. } = &i.kind {
                            for (n, a) in items {
                                if a.is_some() && !b.names.contains_key(n) && !b.ns.contains_key(n) && !n.starts_with('B') && !n.starts_with('E') {
                                    modules[f].raw_body.push(format!("t7 := {}", n));
                                    twist = Some("original-name-used-despite-alias".into());
                                    break 'outer;
                                }
                            }
                        }
                    }
                }
            }
        }
    }

    // ---- realise
    let mut concrete = Concrete::new(&format!("{}/main.sy", PROJECT_DIR));
    for (i, m) in modules.iter().enumerate() {
        if removed.contains(&m.rel) {
            continue;
        }
        concrete.files.insert(format!("{}/{}", PROJECT_DIR, m.rel), render_module(m, i == 0));
    }
    // a decoy file that nothing imports: it must never be read
    if r.chance(1, 2) {
        concrete.files.insert(format!("{}/unused_decoy.sy", PROJECT_DIR), "this file is not valid sylt ((((\n".into());
        features.insert("decoy_file");
    }
    let existing: BTreeSet<String> = modules.iter().filter(|m| !removed.contains(&m.rel)).map(|m| m.rel.clone()).collect();
    let expect_reads: BTreeSet<String> = model_closure(&modules, &existing).into_iter().map(|p| format!("{}/{}", PROJECT_DIR, p)).collect();
    let flattened = if twist.is_none() { Some(render_flat(&modules)) } else { None };
    if let Some(t) = &twist {
        let _ = t;
        features.insert("twist");
    }
    debug_assert!(SIM_ROOT == "/simfs");
    Project { modules, expect_ok: twist.is_none(), twist, removed, concrete, flattened, expect_reads, features }
}

impl Project {
    pub fn describe(&self) -> String {
        format!(
            "{} modules, twist={:?}, features={:?}",
            self.modules.len(),
            self.twist,
            self.features.iter().collect::<Vec<_>>()
        )
    }

    /// Everything replay needs to re-evaluate the oracle without regenerating.
    pub fn extra_json(&self) -> J {
        J::obj()
            .set("expect_ok", J::Bool(self.expect_ok))
            .set("twist", self.twist.as_ref().map(|t| J::s(t)).unwrap_or(J::Null))
            .set("expect_reads", crate::json::arr_str(self.expect_reads.iter()))
            .set("removed", crate::json::arr_str(self.removed.iter().map(|r| format!("{}/{}", PROJECT_DIR, r))))
            .set("flattened", self.flattened.as_ref().map(|t| J::s(t)).unwrap_or(J::Null))
            .set("main_marker", J::s(&marker_of(if self.modules[0].start_from.is_some() { "other" } else { "main.sy" })))
            .set("features", crate::json::arr_str(self.features.iter()))
    }
}
