//! execute(Concrete) → Outcome. Runs the REAL compiler through its public entry
//! `sylt::compile_with_reader_to_writer` against a simulated file store and a
//! simulated sink. Draws no randomness, reads no clock.

use crate::rng::fnv64;
use crate::scenario::{Concrete, SinkPlan, SIM_ROOT};
use std::cell::RefCell;
use std::collections::BTreeMap;
use std::io::{self, Write};
use std::panic::{self, AssertUnwindSafe};
use std::path::{Path, PathBuf};
use std::rc::Rc;
use sylt_common::error::Error;

thread_local! {
    static LAST_PANIC: RefCell<Option<PanicInfo>> = RefCell::new(None);
    /// Real directory standing in for SIM_ROOT on this thread.
    static ROOT: RefCell<String> = RefCell::new(String::new());
}

#[derive(Clone, Debug, PartialEq)]
pub struct PanicInfo {
    pub file: String,
    pub line: u32,
    pub msg: String,
    /// "compile" or "render"
    pub stage: String,
}

impl PanicInfo {
    /// Class key: file basename + message with numbers and quoted / braced parts
    /// stripped. Stable under unrelated edits above the panic site.
    pub fn key(&self) -> String {
        let base = self.file.rsplit('/').next().unwrap_or(&self.file);
        format!("{}|{}", base, strip_variable_parts(&self.msg))
    }
}

pub fn strip_variable_parts(msg: &str) -> String {
    let first = msg.lines().next().unwrap_or("");
    let mut out = String::new();
    let mut in_quote = false;
    let mut depth = 0i32;
    let mut quote_char = '"';
    for ch in first.chars() {
        match ch {
            // quoted, back-quoted and single-quoted parts carry input text: not part of the class
            '"' | '`' | '\'' if !in_quote || ch == quote_char => {
                in_quote = !in_quote;
                quote_char = ch;
                if !in_quote {
                    out.push('_');
                }
            }
            _ if in_quote => {}
            '{' | '[' | '(' => {
                depth += 1;
            }
            '}' | ']' | ')' => {
                depth -= 1;
                if depth == 0 {
                    out.push('_');
                }
                if depth < 0 {
                    depth = 0;
                }
            }
            _ if depth > 0 => {}
            c if c.is_ascii_digit() => {
                if !out.ends_with('#') {
                    out.push('#');
                }
            }
            c => out.push(c),
        }
    }
    let out = out.trim().to_string();
    if out.len() > 80 {
        out.chars().take(80).collect()
    } else {
        out
    }
}

pub fn install_panic_hook() {
    panic::set_hook(Box::new(|info| {
        let (file, line) = info
            .location()
            .map(|l| (l.file().to_string(), l.line()))
            .unwrap_or_else(|| ("?".into(), 0));
        let msg = if let Some(s) = info.payload().downcast_ref::<&str>() {
            s.to_string()
        } else if let Some(s) = info.payload().downcast_ref::<String>() {
            s.clone()
        } else {
            "non-string panic payload".to_string()
        };
        LAST_PANIC.with(|p| {
            *p.borrow_mut() = Some(PanicInfo { file, line, msg, stage: String::new() });
        });
    }));
}

pub fn set_root(real: &str) {
    ROOT.with(|r| *r.borrow_mut() = real.to_string());
}

pub fn root() -> String {
    ROOT.with(|r| r.borrow().clone())
}

fn to_real(root: &str, sim: &str) -> String {
    match sim.strip_prefix(SIM_ROOT) {
        Some(rest) => format!("{}{}", root, rest),
        None => sim.to_string(),
    }
}

pub fn normalise(root: &str, s: &str) -> String {
    if root.is_empty() {
        s.to_string()
    } else {
        s.replace(root, SIM_ROOT)
    }
}

pub fn strip_ansi(s: &str) -> String {
    let mut out = String::with_capacity(s.len());
    let mut it = s.chars().peekable();
    while let Some(c) = it.next() {
        if c == '\u{1b}' && it.peek() == Some(&'[') {
            it.next();
            for d in it.by_ref() {
                if ('@'..='~').contains(&d) {
                    break;
                }
            }
        } else {
            out.push(c);
        }
    }
    out
}

#[derive(Clone, Debug, PartialEq)]
pub enum ReadRes {
    Ok { len: usize, fnv: u64 },
    NotFound,
    IoError,
}

#[derive(Clone, Debug, PartialEq)]
pub struct WriteEv {
    pub len: usize,
    /// Ok(n) or Err(kind)
    pub res: Result<usize, String>,
}

#[derive(Clone, Debug, PartialEq)]
pub struct ErrObs {
    pub variant: &'static str,
    /// File the error is located in (SIM_ROOT-normalised), "lib:<name>" for std files, "" if none.
    pub file: String,
    pub line: usize,
    pub message: String,
    /// `{:?}` of the error, root-normalised: every field, span and helper.
    pub debug: String,
    /// `{}` of the error with ANSI stripped, root-normalised; None if rendering panicked.
    pub rendered: Option<String>,
}

#[derive(Clone, Debug, PartialEq)]
pub enum ResultObs {
    Ok,
    Err(Vec<ErrObs>),
    /// compile panicked; see Outcome.panic
    Panicked,
}

#[derive(Clone, Debug)]
pub struct Outcome {
    pub reads: Vec<(String, ReadRes)>,
    pub writes: Vec<WriteEv>,
    /// Bytes that reached the far side of the sink.
    pub sink_bytes: Vec<u8>,
    pub sink_fault_fired: bool,
    pub result: ResultObs,
    pub panic: Option<PanicInfo>,
    pub render_panics: Vec<PanicInfo>,
    pub maps_built: u64,
}

impl Outcome {
    /// Hash of the complete history (every seam event and the result).
    pub fn history_fnv(&self) -> u64 {
        let mut s = String::new();
        for (p, r) in &self.reads {
            s.push_str(&format!("READ {} {:?}\n", p, r));
        }
        for w in &self.writes {
            s.push_str(&format!("WRITE {} {:?}\n", w.len, w.res));
        }
        s.push_str(&format!("SINK {} {:x}\n", self.sink_bytes.len(), fnv64(&self.sink_bytes)));
        s.push_str(&self.observation());
        fnv64(s.as_bytes())
    }

    /// What C16 compares: emitted bytes, or the ordered error list with every field and its rendering.
    pub fn observation(&self) -> String {
        let mut s = String::new();
        match &self.result {
            ResultObs::Ok => s.push_str(&format!("OK {} {:x}\n", self.sink_bytes.len(), fnv64(&self.sink_bytes))),
            ResultObs::Panicked => s.push_str(&format!("PANIC {:?}\n", self.panic.as_ref().map(|p| p.key()))),
            ResultObs::Err(es) => {
                for e in es {
                    s.push_str(&format!("ERR {}\n{}\n", e.debug, e.rendered.as_deref().unwrap_or("<render panic>")));
                }
            }
        }
        s
    }

    pub fn phase(&self) -> &'static str {
        match &self.result {
            ResultObs::Ok => "codegen",
            ResultObs::Panicked => "panic",
            ResultObs::Err(es) => {
                let mut best = "loader";
                for e in es {
                    let p = match e.variant {
                        "FileNotFound" | "IOError" | "GitConflictError" => "loader",
                        "SyntaxError" => "parser",
                        "CompileError" => {
                            if e.message.contains("Dependency cycle") {
                                "dependency"
                            } else {
                                "resolver"
                            }
                        }
                        "TypeError" => "typechecker",
                        _ => "other",
                    };
                    let rank = |x: &str| match x {
                        "loader" => 0,
                        "parser" => 1,
                        "resolver" => 2,
                        "dependency" => 3,
                        "typechecker" => 4,
                        _ => 5,
                    };
                    if rank(p) > rank(best) {
                        best = p;
                    }
                }
                best
            }
        }
    }

    pub fn events_json(&self, max: usize) -> crate::json::J {
        use crate::json::J;
        let mut ev = Vec::new();
        for (p, r) in &self.reads {
            ev.push(J::s(&format!("READ {} -> {:?}", p, r)));
        }
        let n = self.writes.len();
        for (i, w) in self.writes.iter().enumerate() {
            if i < max || i + 2 >= n {
                ev.push(J::s(&format!("WRITE#{} len={} -> {:?}", i, w.len, w.res)));
            } else if i == max {
                ev.push(J::s(&format!("... {} more WRITE events ...", n - max - 2)));
            }
        }
        match &self.result {
            ResultObs::Ok => ev.push(J::s(&format!(
                "RESULT Ok sink_bytes={} fnv={:x}",
                self.sink_bytes.len(),
                fnv64(&self.sink_bytes)
            ))),
            ResultObs::Panicked => ev.push(J::s(&format!("RESULT PANIC {:?}", self.panic))),
            ResultObs::Err(es) => {
                for e in es {
                    ev.push(J::s(&format!(
                        "RESULT Err {} {}:{} {:?}",
                        e.variant,
                        e.file,
                        e.line,
                        e.message.lines().next().unwrap_or("")
                    )));
                }
            }
        }
        for p in &self.render_panics {
            ev.push(J::s(&format!("RENDER PANIC {}:{} {}", p.file, p.line, p.msg)));
        }
        J::Arr(ev)
    }
}

struct SinkState {
    plan: SinkPlan,
    calls: usize,
    bytes: Vec<u8>,
    log: Vec<WriteEv>,
    fired: bool,
}

#[derive(Clone)]
struct SimSink(Rc<RefCell<SinkState>>);

impl Write for SimSink {
    fn write(&mut self, buf: &[u8]) -> io::Result<usize> {
        let mut s = self.0.borrow_mut();
        let call = s.calls;
        s.calls += 1;
        let res: io::Result<usize> = match s.plan.clone() {
            SinkPlan::Plain | SinkPlan::LineWriter => Ok(buf.len()),
            SinkPlan::FailAt { call: k, kind } if call >= k => {
                s.fired = true;
                match kind.as_str() {
                    "BrokenPipe" => Err(io::Error::new(io::ErrorKind::BrokenPipe, "simulated EPIPE")),
                    "Zero" => Ok(0),
                    _ => Err(io::Error::new(io::ErrorKind::Other, "simulated ENOSPC")),
                }
            }
            SinkPlan::InterruptAt { call: k } if call == k => {
                s.fired = true;
                Err(io::Error::new(io::ErrorKind::Interrupted, "simulated EINTR"))
            }
            SinkPlan::ShortAt { call: k, keep } if call == k && keep < buf.len() => {
                s.fired = true;
                Ok(keep.max(1))
            }
            SinkPlan::Chunked { max } if buf.len() > max.max(1) => {
                s.fired = true;
                Ok(max.max(1))
            }
            _ => Ok(buf.len()),
        };
        let ev = WriteEv {
            len: buf.len(),
            res: match &res {
                Ok(n) => Ok(*n),
                Err(e) => Err(format!("{:?}", e.kind())),
            },
        };
        if let Ok(n) = &res {
            let n = (*n).min(buf.len());
            s.bytes.extend_from_slice(&buf[..n]);
        }
        s.log.push(ev);
        res
    }
    fn flush(&mut self) -> io::Result<()> {
        Ok(())
    }
}

fn err_obs(root: &str, e: &Error, stage_panics: &mut Vec<PanicInfo>) -> ErrObs {
    use sylt_common::FileOrLib;
    let fl = |f: &FileOrLib| match f {
        FileOrLib::File(p) => normalise(root, &p.display().to_string()),
        FileOrLib::Lib(l) => format!("lib:{}", l),
    };
    let (variant, file, line, message): (&'static str, String, usize, String) = match e {
        Error::NoFileGiven => ("NoFileGiven", String::new(), 0, String::new()),
        Error::FileNotFound(p) => ("FileNotFound", normalise(root, &p.display().to_string()), 0, String::new()),
        Error::IOError(e) => ("IOError", String::new(), 0, format!("{}", e)),
        Error::GitConflictError { file, span } => ("GitConflictError", fl(file), span.line_start, String::new()),
        Error::SyntaxError { file, span, message } => ("SyntaxError", fl(file), span.line_start, message.clone()),
        Error::CompileError { file, span, message, .. } => {
            ("CompileError", fl(file), span.line_start, message.clone().unwrap_or_default())
        }
        Error::TypeError { kind, file, span, message, .. } => (
            "TypeError",
            fl(file),
            span.line_start,
            format!("{} {}", kind, message.clone().unwrap_or_default()),
        ),
        Error::RuntimeError => ("RuntimeError", String::new(), 0, String::new()),
        Error::LuaError(s) => ("LuaError", String::new(), 0, s.clone()),
    };
    let debug = normalise(root, &format!("{:?}", e));
    LAST_PANIC.with(|p| *p.borrow_mut() = None);
    let rendered = match panic::catch_unwind(AssertUnwindSafe(|| format!("{}", e))) {
        Ok(s) => Some(normalise(root, &strip_ansi(&s))),
        Err(_) => {
            let mut info = LAST_PANIC.with(|p| p.borrow_mut().take()).unwrap_or(PanicInfo {
                file: "?".into(),
                line: 0,
                msg: "unknown".into(),
                stage: String::new(),
            });
            info.stage = "render".into();
            stage_panics.push(info);
            None
        }
    };
    ErrObs { variant, file, line, message: normalise(root, &message), debug, rendered }
}

fn write_file(path: &str, content: &str) {
    let p = Path::new(path);
    if let Some(d) = p.parent() {
        let _ = std::fs::create_dir_all(d);
    }
    let _ = std::fs::write(p, content);
}

/// Remove everything below the scratch root (the root itself stays).
pub fn clean_root(root: &str) {
    if root.is_empty() {
        return;
    }
    if let Ok(rd) = std::fs::read_dir(root) {
        for e in rd.flatten() {
            let p = e.path();
            if p.is_dir() {
                let _ = std::fs::remove_dir_all(&p);
            } else {
                let _ = std::fs::remove_file(&p);
            }
        }
    }
}

pub fn execute(c: &Concrete) -> Outcome {
    let root = root();
    let mut files: BTreeMap<PathBuf, &String> = BTreeMap::new();
    for (k, v) in &c.files {
        files.insert(PathBuf::from(to_real(&root, k)), v);
    }
    let io_errors: Vec<PathBuf> = c.io_errors.iter().map(|k| PathBuf::from(to_real(&root, k))).collect();
    let reads: RefCell<Vec<(String, ReadRes)>> = RefCell::new(Vec::new());

    // how the main file is spelled on the command line, and the simulated working directory
    let main_real = to_real(&root, &c.main);
    let main_dir = Path::new(&main_real).parent().map(|p| p.to_path_buf()).unwrap_or_default();
    let main_name = Path::new(&main_real).file_name().map(|n| n.to_string_lossy().to_string()).unwrap_or_default();
    let (main_arg, cwd): (String, PathBuf) = match c.main_spelling.as_str() {
        "bare" => (main_name.clone(), main_dir.clone()),
        "dot-slash" => (format!("./{}", main_name), main_dir.clone()),
        "relative-dir" => {
            let parent = main_dir.parent().map(|p| p.to_path_buf()).unwrap_or_default();
            let d = main_dir.file_name().map(|n| n.to_string_lossy().to_string()).unwrap_or_default();
            (format!("{}/{}", d, main_name), parent)
        }
        _ => (main_real.clone(), PathBuf::new()),
    };
    // what a file system does with a path: relative to the working directory, `.` components dropped
    let resolve = |p: &Path| -> PathBuf {
        let joined = if p.is_absolute() { p.to_path_buf() } else { cwd.join(p) };
        let mut out = PathBuf::new();
        for comp in joined.components() {
            match comp {
                std::path::Component::CurDir => {}
                std::path::Component::ParentDir => {
                    out.pop();
                }
                other => out.push(other.as_os_str()),
            }
        }
        out
    };

    let reader = |raw: &Path| -> Result<String, Error> {
        let p_abs = resolve(raw);
        let p = p_abs.as_path();
        let name = normalise(&root, &p.display().to_string());
        if io_errors.iter().any(|q| q == p) {
            reads.borrow_mut().push((name, ReadRes::IoError));
            return Err(Error::IOError(Rc::new(io::Error::new(io::ErrorKind::Other, "simulated EIO"))));
        }
        match files.get(p) {
            Some(s) => {
                reads.borrow_mut().push((name, ReadRes::Ok { len: s.len(), fnv: fnv64(s.as_bytes()) }));
                Ok((*s).clone())
            }
            None => {
                reads.borrow_mut().push((name, ReadRes::NotFound));
                Err(Error::FileNotFound(raw.to_path_buf()))
            }
        }
    };

    let mut args = sylt::Args::default();
    args.args = vec![main_arg.clone()];
    args.no_std = c.no_std;
    args.require = c.require.clone();

    let state = Rc::new(RefCell::new(SinkState {
        plan: c.sink.clone(),
        calls: 0,
        bytes: Vec::new(),
        log: Vec::new(),
        fired: false,
    }));

    sylt_common::verif_hash::set_hash_seed(c.hash_seed);
    let maps_before = sylt_common::verif_hash::maps_built();
    LAST_PANIC.with(|p| *p.borrow_mut() = None);

    let res = panic::catch_unwind(AssertUnwindSafe(|| {
        if c.sink == SinkPlan::LineWriter {
            let mut lw = io::LineWriter::new(SimSink(state.clone()));
            let r = sylt::compile_with_reader_to_writer(&args, &reader, &mut lw);
            let _ = lw.flush();
            r
        } else {
            let mut sink = SimSink(state.clone());
            sylt::compile_with_reader_to_writer(&args, &reader, &mut sink)
        }
    }));
    let maps_built = sylt_common::verif_hash::maps_built() - maps_before;

    let mut panic_info = None;
    let mut render_panics = Vec::new();
    let result = match res {
        Ok(Ok(())) => ResultObs::Ok,
        Ok(Err(errs)) => {
            // Error rendering re-reads files from the real disk: set up what it will find.
            let mut wrote = false;
            if c.render.materialise && !root.is_empty() {
                for (k, v) in &c.files {
                    if !c.render.overrides.contains_key(k) {
                        write_file(&to_real(&root, k), v);
                    }
                }
                for (k, v) in &c.render.overrides {
                    if let Some(v) = v {
                        write_file(&to_real(&root, k), v);
                    }
                }
                wrote = true;
            }
            let obs: Vec<ErrObs> = errs.iter().map(|e| err_obs(&root, e, &mut render_panics)).collect();
            if wrote {
                clean_root(&root);
            }
            ResultObs::Err(obs)
        }
        Err(_) => {
            let mut info = LAST_PANIC.with(|p| p.borrow_mut().take()).unwrap_or(PanicInfo {
                file: "?".into(),
                line: 0,
                msg: "unknown".into(),
                stage: String::new(),
            });
            info.stage = "compile".into();
            info.msg = normalise(&root, &info.msg);
            panic_info = Some(info);
            ResultObs::Panicked
        }
    };

    let st = state.borrow();
    Outcome {
        reads: reads.into_inner(),
        writes: st.log.clone(),
        sink_bytes: st.bytes.clone(),
        sink_fault_fired: st.fired,
        result,
        panic: panic_info,
        render_panics,
        maps_built,
    }
}

/// Runs `f` in a brand-new thread (fresh thread-locals, nothing compiled before in it).
pub fn in_fresh_thread<T: Send + 'static>(f: impl FnOnce() -> T + Send + 'static) -> Option<T> {
    let root = root();
    std::thread::Builder::new()
        .stack_size(256 << 20)
        .spawn(move || {
            set_root(&root);
            f()
        })
        .ok()?
        .join()
        .ok()
}
