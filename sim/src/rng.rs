//! The only source of randomness in the simulator: splitmix64 for seed derivation,
//! xoshiro256** for streams. Everything is a pure function of VERIF_SEED.

pub fn splitmix64(x: u64) -> u64 {
    let mut z = x.wrapping_add(0x9e3779b97f4a7c15);
    z = (z ^ (z >> 30)).wrapping_mul(0xbf58476d1ce4e5b9);
    z = (z ^ (z >> 27)).wrapping_mul(0x94d049bb133111eb);
    z ^ (z >> 31)
}

pub fn fnv64(bytes: &[u8]) -> u64 {
    let mut h: u64 = 0xcbf29ce484222325;
    for b in bytes {
        h ^= *b as u64;
        h = h.wrapping_mul(0x100000001b3);
    }
    h
}

pub fn tag(s: &str) -> u64 {
    splitmix64(fnv64(s.as_bytes()))
}

#[derive(Clone, Debug)]
pub struct Rng {
    s: [u64; 4],
}

impl Rng {
    pub fn new(seed: u64) -> Rng {
        let mut x = seed;
        let mut s = [0u64; 4];
        for v in s.iter_mut() {
            x = splitmix64(x);
            *v = x;
        }
        if s == [0; 4] {
            s[0] = 1;
        }
        Rng { s }
    }
    /// Named sub-stream: removing a choice from one stream never shifts another.
    pub fn sub(seed: u64, name: &str) -> Rng {
        Rng::new(seed ^ tag(name))
    }
    pub fn next(&mut self) -> u64 {
        let r = self.s[1].wrapping_mul(5).rotate_left(7).wrapping_mul(9);
        let t = self.s[1] << 17;
        self.s[2] ^= self.s[0];
        self.s[3] ^= self.s[1];
        self.s[1] ^= self.s[2];
        self.s[0] ^= self.s[3];
        self.s[2] ^= t;
        self.s[3] = self.s[3].rotate_left(45);
        r
    }
    /// Uniform in 0..n (n > 0).
    pub fn below(&mut self, n: usize) -> usize {
        if n <= 1 {
            return 0;
        }
        ((self.next() >> 11) % (n as u64)) as usize
    }
    pub fn range(&mut self, lo: usize, hi_incl: usize) -> usize {
        lo + self.below(hi_incl - lo + 1)
    }
    /// True with probability num/den.
    pub fn chance(&mut self, num: usize, den: usize) -> bool {
        self.below(den) < num
    }
    pub fn pick<'a, T>(&mut self, xs: &'a [T]) -> &'a T {
        &xs[self.below(xs.len())]
    }
    pub fn weighted(&mut self, weights: &[usize]) -> usize {
        let total: usize = weights.iter().sum();
        let mut r = self.below(total.max(1));
        for (i, w) in weights.iter().enumerate() {
            if r < *w {
                return i;
            }
            r -= *w;
        }
        weights.len() - 1
    }
    pub fn shuffle<T>(&mut self, xs: &mut [T]) {
        for i in (1..xs.len()).rev() {
            let j = self.below(i + 1);
            xs.swap(i, j);
        }
    }
}
