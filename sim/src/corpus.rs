//! Workload corpus: the project's own .sy programs, read from /repo at check time
//! (sorted, so the index of a file is a pure function of the tree).

use crate::scenario::SIM_ROOT;
use std::collections::BTreeMap;
use std::path::{Path, PathBuf};

pub struct Corpus {
    /// sim path → content, for every corpus file
    pub files: BTreeMap<String, String>,
    /// sim paths usable as a main file (not starting with '_'), sorted
    pub mains: Vec<String>,
    /// all file contents usable as splice / line donors, sorted by path
    pub donors: Vec<String>,
}

fn walk(dir: &Path, out: &mut Vec<PathBuf>) {
    let mut entries: Vec<PathBuf> = match std::fs::read_dir(dir) {
        Ok(rd) => rd.flatten().map(|e| e.path()).collect(),
        Err(_) => return,
    };
    entries.sort();
    for p in entries {
        if p.is_dir() {
            walk(&p, out);
        } else if p.extension().map(|e| e == "sy").unwrap_or(false) {
            out.push(p);
        }
    }
}

pub fn repo_root() -> String {
    std::env::var("SYLT_SIM_REPO").unwrap_or_else(|_| "/repo".to_string())
}

pub fn load() -> Corpus {
    let repo = repo_root();
    let mut paths = Vec::new();
    for sub in ["tests", "std", "jordgubb"] {
        walk(&Path::new(&repo).join(sub), &mut paths);
    }
    let mut files = BTreeMap::new();
    for p in paths {
        if let Ok(s) = std::fs::read_to_string(&p) {
            if s.len() > 64 * 1024 {
                continue;
            }
            let rel = p.strip_prefix(&repo).unwrap().display().to_string();
            files.insert(format!("{}/{}", SIM_ROOT, rel), s);
        }
    }
    let mains: Vec<String> = files
        .keys()
        .filter(|k| {
            let name = k.rsplit('/').next().unwrap();
            !name.starts_with('_') && !k.contains("/tests/bench/")
        })
        .cloned()
        .collect();
    let donors = files.keys().cloned().collect();
    Corpus { files, mains, donors }
}

impl Corpus {
    /// The files a corpus main needs: itself, plus (if it imports anything) every
    /// .sy under its directory.
    pub fn project_of(&self, main: &str) -> BTreeMap<String, String> {
        let mut out = BTreeMap::new();
        let text = &self.files[main];
        out.insert(main.to_string(), text.clone());
        let imports = text.lines().any(|l| {
            let t = l.trim_start();
            t.starts_with("use ") || t.starts_with("from ")
        });
        if imports {
            let dir = &main[..main.rfind('/').unwrap() + 1];
            let top_level = dir.ends_with("/tests/");
            for (k, v) in self.files.range(dir.to_string()..) {
                if !k.starts_with(dir) {
                    break;
                }
                if top_level && k[dir.len()..].contains('/') {
                    continue;
                }
                out.insert(k.clone(), v.clone());
            }
        }
        out
    }
}
